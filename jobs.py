"""Job lists per property and tier (see DESIGN.md section 5).  Each Job = one harness instantiation that the
symbolic executor explores exhaustively; 'bounds' is the stated bound of that job."""
from driver import Job

COMMON_ASSUMPTIONS = [
    'LLVM IR produced by clang++-14 -O1 (-ffp-contract=off, no vectorisation) from /repo working tree is a faithful compilation of the sources (cross-checked per path against the native g++ -O0 build: traces_validated_against_impl)',
    'own LLVM-IR interpreter + floating-point model (exact real term + rational rounding-error bound, exactness for dyadic values below 2^53) is sound; z3 answers are correct',
    'C models of non-header libstdc++ pieces (rb-tree rebalancing as unbalanced BST, list hooks, qsort as insertion sort, std::string out-of-line members, hash primes) behave like libstdc++ for observable results',
    'allocation never fails; single thread; ostream/printf/logging bodies are stubbed out',
    'claims hold only inside the stated bounds of each job (sizes, input ranges, menus)',
]
ASSUMPTIONS = {}
JOBS = {}

def vp(name, nv, nc, mode, extra=(), **kw):
    return Job(name, 'C01_vpsc.cpp', ['-DNV=%d' % nv, '-DNC=%d' % nc, '-DMODE=%d' % mode] + list(extra), ['libvpsc'], **kw)

B_VPSC = 'desired positions integers in [-4,4], gaps integers in [-2,3], every (left,right) assignment with left!=right'
JOBS['C01'] = {
    'quick': [
        vp('inc-satisfy-n3m2', 3, 2, 0, bounds='IncSolver::satisfy, n=3 m=2; ' + B_VPSC),
        vp('inc-solve-n3m2-eq', 3, 2, 1, ['-DEQSYM'], bounds='IncSolver::solve, n=3 m=2, equality flag symbolic; ' + B_VPSC),
    ],
    'thorough': [],
}
