"""Job lists per property and tier (see DESIGN.md section 5).  Each Job = one harness instantiation that the
symbolic executor explores exhaustively; 'bounds' is the stated bound of that job."""
from driver import Job

COMMON_ASSUMPTIONS = [
    'LLVM IR produced by clang++-14 -O1 (-ffp-contract=off, no vectorisation) from /repo working tree is a faithful compilation of the sources (cross-checked per path against the native g++ -O0 build: traces_validated_against_impl)',
    'own LLVM-IR interpreter + floating-point model (exact real term + rational rounding-error bound, exactness for dyadic values below 2^53) is sound; z3 answers are correct',
    'C models of non-header libstdc++ pieces (rb-tree rebalancing as unbalanced BST, list hooks, qsort as insertion sort, std::string out-of-line members, hash primes) behave like libstdc++ for observable results',
    'allocation never fails; single thread; ostream/printf/logging bodies are stubbed out',
    'claims hold only inside the stated bounds of each job (sizes, input ranges, menus)',
]
ASSUMPTIONS = {}
JOBS = {}

def vp(name, nv, nc, mode, extra=(), libs=('libvpsc',), **kw):
    return Job(name, 'C01_vpsc.cpp', ['-DNV=%d' % nv, '-DNC=%d' % nc, '-DMODE=%d' % mode] + list(extra), list(libs), **kw)

B_VPSC = 'desired positions integers in [-4,4], gaps integers in [-2,3], every (left,right) assignment with left!=right (symbolic choice), weights 1, scales 1 unless stated'
AV = ['-DAVOID_COPY']
JOBS['C01'] = {
    'quick': [
        vp('inc-satisfy-n3m3', 3, 3, 0, bounds='IncSolver::satisfy, n=3 m=3 (all 216 structures incl. cycles, duplicates); ' + B_VPSC),
        vp('inc-solve-n3m2-eq', 3, 2, 1, ['-DEQSYM'], bounds='IncSolver::solve, n=3 m=2, equality flag symbolic; ' + B_VPSC),
        vp('static-satisfy-n3m2', 3, 2, 2, bounds='Solver::satisfy on acyclic structures, n=3 m=2; ' + B_VPSC),
        vp('static-solve-n3m2', 3, 2, 3, bounds='Solver::solve on acyclic structures, n=3 m=2; ' + B_VPSC),
        vp('inc-resolve-n3m2', 3, 2, 1, ['-DHISTORY=1'], bounds='IncSolver::solve, move all desired positions (symbolic), solve again; n=3 m=2; ' + B_VPSC),
        vp('inc-addcons-n3m2', 3, 2, 0, ['-DHISTORY=2'], bounds='IncSolver::satisfy, addConstraint(symbolic) on the live solver, satisfy again; n=3 m=2(+1); ' + B_VPSC),
        vp('inc-solve-n3m2-wts', 3, 2, 1, ['-DWEIGHTS=1,2,1', '-DSCALES=1,2,1'], bounds='IncSolver::solve, weights (1,2,1) scales (1,2,1); n=3 m=2; ' + B_VPSC),
        vp('inc-solve-n2m1-nonint', 2, 1, 1, ['-DNONINT'], bounds='IncSolver::solve, arbitrary double desired positions in [-4,4], gap in [-2,3] (inexact arithmetic, banded comparisons); n=2 m=1'),
    ],
    'thorough': [
        vp('inc-solve-n3m3', 3, 3, 1, bounds='IncSolver::solve, n=3 m=3 all 216 structures; ' + B_VPSC),
        vp('inc-satisfy-n3m3-eq', 3, 3, 0, ['-DEQSYM'], bounds='IncSolver::satisfy, n=3 m=3, equality flags symbolic; ' + B_VPSC),
        vp('static-solve-n3m3', 3, 3, 3, bounds='Solver::solve on acyclic structures n=3 m=3; ' + B_VPSC),
        vp('inc-solve-n3m3-wts', 3, 3, 1, ['-DWEIGHTS=2,1,2', '-DSCALES=1,2,1'], bounds='weights (2,1,2), scales (1,2,1); n=3 m=3; ' + B_VPSC),
        vp('avoid-solve-n3m3', 3, 3, 1, AV, libs=['libavoid'], bounds='Avoid::IncSolver::solve (libavoid/vpsc.cpp) n=3 m=3; ' + B_VPSC),
    ],
}
ASSUMPTIONS['C01'] = ['static Solver is only run on acyclic constraint graphs (its documented domain)', 'a constraint relates two distinct variables (left != right)']
JOBS['C02'] = {
    'quick': [
        vp('inc-kkt-n3m3', 3, 3, 1, ['-DKKT'], bounds='IncSolver::solve + KKT certificate check, n=3 m=3 all structures; ' + B_VPSC),
        vp('inc-kkt-permute-n3m2', 3, 2, 1, ['-DKKT', '-DPERMUTE'], bounds='+ reversed variable/constraint order gives the same optimum; n=3 m=2; ' + B_VPSC),
        vp('static-kkt-n3m2', 3, 2, 3, ['-DKKT'], bounds='Solver::solve (acyclic) + KKT; n=3 m=2; ' + B_VPSC),
        vp('avoid-kkt-n3m2', 3, 2, 1, ['-DKKT'] + AV, libs=['libavoid'], bounds='Avoid::IncSolver::solve + KKT; n=3 m=2; ' + B_VPSC),
        vp('inc-kkt-resolve-n3m2', 3, 2, 1, ['-DKKT', '-DHISTORY=1'], bounds='solve / move desired positions / solve, KKT after each; n=3 m=2; ' + B_VPSC),
        vp('inc-kkt-n3m2-scaled', 3, 2, 1, ['-DKKT', '-DWEIGHTS=1,2,1', '-DSCALES=1,2,1'], bounds='weights (1,2,1) scales (1,2,1); n=3 m=2; ' + B_VPSC),
        vp('inc-kkt-resolve-n3m3-fan', 3, 3, 1, ['-DKKT', '-DHISTORY=1', '-DSTRUCT_L=2,1,1', '-DSTRUCT_R=0,0,2'], bounds='solve / move desired positions / solve on the fixed structure x2+g0<=x0, x1+g1<=x0, x1+g2<=x2 (a block that needs several split passes); ' + B_VPSC),
    ],
    'thorough': [
        vp('inc-kkt-permute-n3m3', 3, 3, 1, ['-DKKT', '-DPERMUTE'], bounds='n=3 m=3 all structures, KKT + order independence; ' + B_VPSC),
        vp('static-kkt-n3m3', 3, 3, 3, ['-DKKT'], bounds='Solver::solve (acyclic) n=3 m=3; ' + B_VPSC),
        vp('avoid-kkt-n3m3', 3, 3, 1, ['-DKKT'] + AV, libs=['libavoid'], bounds='Avoid::IncSolver n=3 m=3; ' + B_VPSC),
        vp('inc-kkt-addcons-n3m2', 3, 2, 1, ['-DKKT', '-DHISTORY=2'], bounds='solve / addConstraint / solve with KKT; n=3 m=2(+1); ' + B_VPSC),
        vp('inc-kkt-n3m3-scaled', 3, 3, 1, ['-DKKT', '-DWEIGHTS=2,1,2', '-DSCALES=1,2,1'], bounds='weights (2,1,2) scales (1,2,1); n=3 m=3; ' + B_VPSC),
        vp('inc-kkt-n4m4-chain', 4, 4, 1, ['-DKKT', '-DSTRUCT_L=0,1,2,0', '-DSTRUCT_R=1,2,3,3'], bounds='n=4 m=4 fixed structure chain+chord; ' + B_VPSC),
    ],
}
ASSUMPTIONS['C02'] = ASSUMPTIONS['C01'] + ['optimality is established by checking a KKT certificate (primal feasibility, tight active set forming a forest, multipliers >= -2e-4, stationarity residual <= 1e-5); for a strictly convex QP this implies the unique optimum']

# ----------------------------------------------------------------------------------------------- C16
def geo(name, which, g=1048576, extra=(), **kw):
    return Job(name, 'C16_geometry.cpp', ['-DWHICH=%d' % which, '-DG=%d' % g] + list(extra), ['libavoid'], **kw)
B_GEO = 'all integer coordinates in [-2^20, 2^20] (products < 2^53: the double arithmetic of the real code is exact); '
JOBS['C16'] = {
    'quick': [
        geo('vecDir', 1, bounds=B_GEO + 'vecDir vs exact sign of the cross product + antisymmetry/rotation'),
        geo('segmentIntersect', 2, bounds=B_GEO + 'segmentIntersect vs exact proper crossing + 3 symmetries'),
        geo('pointOnLine-colinear-inBetween', 3, bounds=B_GEO + 'pointOnLine/colinear/inBetween vs exact open-segment membership'),
        geo('segmentShapeIntersect', 4, bounds=B_GEO + 'segmentShapeIntersect (both values of the seen-endpoint flag) vs exact definition + reversal symmetry'),
        geo('inPoly-triangle', 5, bounds=B_GEO + 'inPoly (both countBorder) on all positively oriented non-degenerate triangles'),
        geo('inPolyGen-triangle', 5, g=1024, extra=['-DGEN'], bounds='coordinates in [-1024,1024]; inPolyGen (and inPoly) on all positively oriented non-degenerate triangles; the sign of each ray-crossing quotient is exact'),
        geo('inValidRegion-cornerSide', 7, bounds=B_GEO + 'inValidRegion (both IgnoreRegions) and cornerSide vs exact cone/corner definitions'),
        geo('intersectPoint-class', 8, bounds=B_GEO + 'segmentIntersectPoint / rayIntersectPoint classification vs exact closed-segment intersection'),
    ],
    'thorough': [
        geo('inPoly-quad', 6, g=1024, bounds='coordinates in [-1024,1024]; inPoly/inPolyGen on all convex quadrilaterals with distinct vertices'),
    ],
}
ASSUMPTIONS['C16'] = ['pointOnLine/inBetween are specified as open-segment tests (strict inequalities), which is what the code and its callers implement, although the source comments say "closed"',
                      'inPoly is specified for convex polygons whose vertex order makes vecDir(prev,cur,next) >= 0 (libavoid shape convention)']

# ----------------------------------------------------------------------------------------------- C03 / C05 (orthogonal pipeline)
def scene(name, src, dst, r0, r1=None, extra=(), **kw):
    d = ['-DSRC=%s' % src, '-DDST=%s' % dst, '-DR0=%s' % r0] + (['-DR1=%s' % r1] if r1 else []) + list(extra)
    kw.setdefault('bounds', 'orthogonal Router, rectangle(s) %s%s, source in box %s, destination in box %s (x0,x1,y0,y1; all integer points), %s' % (r0, (' and ' + r1) if r1 else '', src, dst, ' '.join(extra) or 'segmentPenalty 50'))
    return Job(name, 'C03_route.cpp', d, ['libavoid'], **kw)
SCENES_Q = [
    scene('across-1rect', '0,15,30,50', '70,85,30,50', '20,20,60,60'),
    scene('corner-1rect', '0,15,30,50', '30,50,65,80', '20,20,60,60'),
    scene('two-rects-L', '6,8,0,3', '0,3,4,7', '0,0,5,3', '4,4,5,7', extra=['-DPEN=10']),
]
SCENES_T = [
    scene('across-1rect-srcdir-up', '0,15,30,50', '70,85,30,50', '20,20,60,60', extra=['-DSRCDIR=ConnDirUp']),
    scene('across-1rect-dstdir-right', '0,15,30,50', '70,85,30,50', '20,20,60,60', extra=['-DDSTDIR=ConnDirRight']),
    scene('across-1rect-buf4', '0,12,30,50', '70,85,30,50', '20,20,60,60', extra=['-DBUF=4']),
    scene('across-1rect-pen10', '0,15,30,50', '70,85,30,50', '20,20,60,60', extra=['-DPEN=10', '-DKMAX=10']),
    scene('two-rects-channel', '0,8,10,30', '72,80,10,30', '20,0,30,40', '50,0,60,40', extra=['-DPEN=10', '-DKMAX=12']),
    scene('shifted-1rect', '0,10,35,45', '80,90,35,45', '30,20,60,60', extra=['-DRSHIFT=-8,8']),
]
def visg(name, extra=(), **kw):
    return Job(name, 'C03_visgraph.cpp', list(extra), ['libavoid'], **kw)
B_VIS = 'PolyLineRouting (naive visibility), A=(0,0,20,40), B=(40,20,60,60), wall W=(20..22,-30)-(38..40,90) with symbolic integer left/right sides (touching A and/or B at the boundaries); every visibility edge with a distance is checked against all shapes; '
JOBS['C03'] = {'quick': SCENES_Q + [visg('visgraph-touching-incremental', bounds=B_VIS + 'W added in a second transaction (Router::newBlockingShape)')],
               'thorough': SCENES_T + [visg('visgraph-touching-oneshot', ['-DONESHOT'], bounds=B_VIS + 'all shapes in one transaction'),
                            visg('visgraph-touching-movein', ['-DMOVEIN'], bounds=B_VIS + 'W added far away and then moved into the gap')]}
JOBS['C05'] = {'quick': SCENES_Q, 'thorough': []}

COLA_LIBS_EARLY = ['libvpsc', 'libcola']
# ----------------------------------------------------------------------------------------------- C17
def sp(name, nn, ne, extra=(), libs=(), **kw):
    return Job(name, 'C17_paths.cpp', ['-DNN=%d' % nn, '-DNE=%d' % ne] + list(extra), list(libs), **kw)
JOBS['C17'] = {
    'quick': [
        sp('apsp-n3e3', 3, 3, bounds='all multigraphs on 3 nodes with 3 edges (every endpoint assignment incl. self-loops and parallel edges), integer weights in [0,8]'),
    ],
    'thorough': [
        sp('apsp-n4e2', 4, 2, bounds='all multigraphs on 4 nodes with 2 edge slots (mostly disconnected: sentinel handling), integer weights in [0,8]'),
        sp('apsp-n3e3-frac', 3, 3, ['-DFRAC'], bounds='3 nodes, 3 edge slots, weights any multiple of 1/4 in [0,8] (fractional, exact dyadic sums)'),
        sp('apsp-n3e3-layout', 3, 3, ['-DLAYOUT', '-DLAYOUT_ONLY', '-DWLO=-2', '-DNOSELF'], libs=COLA_LIBS_EARLY, exclude=('libcola/output_svg.cpp',), bounds='3 nodes, 3 edges without self-loops, integer lengths in [-2,8] (non-positive ones are replaced by 1): ConstrainedFDLayout constructor, readLinearD/readLinearG vs idealLength x oracle'),
    ],
}
ASSUMPTIONS['C17'] = []
JOBS['C05'] = {'quick': [Job('bends-admissible', 'C05_bends.cpp', [], ['libavoid'], bounds='start point in [-8,8]^2, 4 start directions, every orthogonal path with <= 4 bends (turn directions symbolic), segment lengths <= 6')] + SCENES_Q, 'thorough': SCENES_T}

# ----------------------------------------------------------------------------------------------- C18
def sepj(name, part, gapmode, **kw):
    return Job(name, 'C18_seppair.cpp', ['-DPART=%d' % part, '-DGAPMODE=%d' % gapmode], ['libvpsc', 'libavoid', 'libcola', 'libtopology', 'libdialect'], **kw)
B_SEP = 'all 2 gap types x 8 directions x 2 relations (x 7 transforms); node centres integers in [-20,20]^2, node sizes even integers in [2,12]; '
GM = {0: 'gap any multiple of 1/2 in (0,12.5]', 1: 'gap = +0.0', 2: 'gap = -0.0'}
JOBS['C18'] = {'quick': [sepj('%s-gap%d' % (n, g), p, g, bounds=B_SEP + GM[g] + '; ' + d)
                         for (p, n, d) in ((0, 'commute', 'transform/geometry equivalence'), (1, 'group', 'dihedral group laws'), (2, 'storage-vpsc', '(a,b)/(b,a) storage and generated vpsc constraints'), (3, 'restore-history', 'history: an existing pair (created under either order) overwritten through either order equals a fresh store'), (4, 'tglf-write', 'SepPair::writeTglf output (for the constraint and its 7 transforms) re-read by a reader in the harness describes the same constraint; gap numbers not compared'))
                         for g in (0, 1, 2)],
               'thorough': []}
ASSUMPTIONS['C18'] = ['TGLF write/read round trip is outside the claim: iostream formatting/parsing is stubbed in the executor (DESIGN.md 2.5)',
                      'constraint semantics (sign bit of the gap selects the left node; BDRY adds the mean extent) are written in the harness from the documentation in constraints.h']

# ----------------------------------------------------------------------------------------------- C19
DIALECT_LIBS = ['libvpsc', 'libavoid', 'libcola', 'libtopology', 'libdialect']
def dec(name, part, nn, **kw):
    return Job(name, 'C19_decomp.cpp', ['-DPART=%d' % part, '-DNN=%d' % nn], DIALECT_LIBS, **kw)
JOBS['C19'] = {
    'quick': [
        dec('peel-n4', 0, 4, bounds='dialect::peel on every connected simple graph with 4 nodes (all 64 edge subsets, disconnected ones excluded by the precondition)'),
        dec('conncomps-n4', 1, 4, bounds='Graph::getConnComps on every simple graph with 4 nodes (64 edge subsets)'),
        dec('symmtree-n6', 2, 6, bounds='Tree::symmetricLayout (all 4 growth directions) on every rooted labelled tree with 6 nodes (parent choices, 120 trees), node sizes symbolic integers in [2,30]^2'),
    ],
    'thorough': [
        dec('peel-n5', 0, 5, bounds='dialect::peel on every connected simple graph with 5 nodes (1024 edge subsets)'),
        dec('conncomps-n5', 1, 5, bounds='getConnComps on every simple graph with 5 nodes'),
        Job('symmtree-n8-south', 'C19_decomp.cpp', ['-DPART=2', '-DNN=8', '-DDIR=1'], DIALECT_LIBS, bounds='Tree::symmetricLayout (growth SOUTH) on every rooted labelled tree with 8 nodes (5040 parent arrays), symbolic node sizes', time_limit=3000),
    ],
}
ASSUMPTIONS['C19'] = ['peel is specified for connected graphs (disconnected inputs trip its internal assertion: precondition, see DESIGN.md 7.4)',
                      'std::unordered containers / hashing are modelled (engine/strmodels.py); results that depended on hash iteration order would show up as native/symbolic output mismatches']

# ----------------------------------------------------------------------------------------------- C09
def ovl(name, mode, nr, extra=(), **kw):
    # equal scan positions are ordered by node ADDRESS in the code under test, so the native build may generate a different
    # (equally valid) constraint set than the executor: a placement that satisfies one need not satisfy the other
    kw.setdefault('opts', {'native_assume_false_ok': True})
    return Job(name, 'C09_overlap.cpp', ['-DMODE=%d' % mode, '-DNR=%d' % nr] + list(extra), ['libvpsc'], **kw)
B_OVL = 'rectangle min corners integers in [0,6]^2, widths/heights integers in [1,3] (identical, nested, touching and grid-tie placements included); '
JOBS['C09'] = {
    'quick': [
        ovl('gen-n2', 0, 2, bounds=B_OVL + '2 rectangles; generateX/YConstraints acyclic + two-stage universally quantified placement claim (placements any multiples of 1/2 in [-12,18])'),
        ovl('gen-n2-heaprev', 0, 2, ['-DHEAPREV'], bounds=B_OVL + 'same with the heap address order reversed (the other outcome of every pointer tie-break in the scan line)'),
    ],
    'thorough': [
        ovl('gen-n3-size2-heaprev', 0, 3, ['-DFIXSZ=2', '-DPOS=4', '-DHEAPREV'], bounds='as gen-n3-size2 with the heap address order reversed', time_limit=2400),
        ovl('gen-n3-size2', 0, 3, ['-DFIXSZ=2', '-DPOS=4'], bounds='3 rectangles of size 2x2 with integer min corners in [0,4]^2 (identical, touching, overlapping, tie placements); constraint generation + two-stage placement claim', time_limit=2400),
    ],
}
# Not registered (kept in the harness as MODE 1/2 for experiments): removeoverlaps() end to end.  It widens every rectangle by a
# non-dyadic EXTRA_GAP of 1e-3, so every scan-line comparison is inexact; near-ties fork inside the rounding band, the forks
# multiply (70k+ paths for two rectangles) and over-approximated paths put the std::set comparator into inconsistent states.
ASSUMPTIONS['C09'] = ['where the scan line orders nodes with equal positions by their addresses, both address orders are explored (jobs *-heaprev); paths whose native replay takes the other tie-break are counted as validation-skipped, not validated', 'rectangles have positive width and height (generateYConstraints asserts minX < maxX)', 'removeoverlaps() end to end (size preservation, fixed rectangles, border restoration) is outside the claim: its 1e-3 extra gap makes every comparison inexact and the banded exploration does not terminate within budget; the claim covers the constraint generators, on which the no-overlap guarantee rests']

# ----------------------------------------------------------------------------------------------- C07
COLA_LIBS = ['libvpsc', 'libcola']
CCN = {1: 'Separation', 2: 'Alignment', 3: 'Boundary', 4: 'Distribution', 5: 'MultiSeparation', 6: 'FixedRelative', 7: 'PageBoundary', 8: 'Separation+Alignment+EqSeparation'}
def proj(cc, **kw):
    return Job('project-' + CCN[cc], 'C07_project.cpp', ['-DCC=%d' % cc], COLA_LIBS, exclude=('libcola/output_svg.cpp',),
               bounds='cola::projectOntoCCs, 3 rectangles with integer centre coordinates in [-20,20]^2, both dimensions; constraint class %s with symbolic integer gaps/offsets' % CCN[cc], **kw)
JOBS['C07'] = {'quick': [proj(c) for c in (1, 2, 3, 8)], 'thorough': [proj(c) for c in (4, 5, 6)]}   # PageBoundary (7) is a soft (weighted) constraint: no hard relation to assert
ASSUMPTIONS['C07'] = ['the claim is about the projection layer (projectOntoCCs / solve); ConstrainedFDLayout::run ends every iteration with this projection, but its descent step (sqrt of symbolic distances) is outside the arithmetic of the executor -- composition stated, not proved (DESIGN.md 5/C07)']

# ----------------------------------------------------------------------------------------------- C08 (+ C07 through makeFeasible)
def feas(name, nr, flags, **kw):
    return Job(name, 'C08_feasible.cpp', ['-DNR=%d' % nr] + ['-D' + f for f in flags], COLA_LIBS, exclude=('libcola/output_svg.cpp',),
               bounds='ConstrainedFDLayout::makeFeasible, %d rectangles (sizes 10x6, 14x8, 18x10) with integer centres in [0,8]^2 -- [0,k]^2 when the flag PB=k is listed -- (always overlapping initially), options: %s' % (nr, ' '.join(flags)), **kw)
JOBS['C08'] = {'quick': [feas('feasible-n2-overlap', 2, ['OVERLAP']), feas('feasible-n2-overlap-sep', 2, ['OVERLAP', 'SEP']), feas('feasible-n3-exempt', 3, ['OVERLAP', 'EXEMPT'], time_limit=400), feas('feasible-n2-pinned', 2, ['OVERLAP', 'SEP', 'SEPEQ', 'SEPY'], max_steps=2000000),
                         feas('feasible-n3-cluster-outsider', 3, ['OVERLAP', 'CLUSTER', 'SYMONLY=2'])],
               'thorough': [feas('feasible-n3-overlap', 3, ['OVERLAP']), feas('feasible-n3-pinned', 3, ['OVERLAP', 'SEP', 'SEPEQ', 'SEPY', 'PB=1'], time_limit=1500)]}
# the pinned-pair makeFeasible job asserts C07's relations too (it is the one that catches the seeded change C07-m1)
JOBS['C07']['thorough'] = JOBS['C07']['thorough'] + [j for j in JOBS['C08']['thorough'] if j.name == 'feasible-n3-pinned'] + [j for j in JOBS['C08']['quick'] if j.name == 'feasible-n2-overlap-sep']
ASSUMPTIONS['C08'] = ['claim covers makeFeasible() (the feasibility phase); the subsequent run() descent uses sqrt of symbolic distances and is outside the executor arithmetic; run() re-projects onto the same constraints after every step (composition stated, not proved)']

# ----------------------------------------------------------------------------------------------- C20
def rep(name, subject, variant, extra=(), libs=('libvpsc',), **kw):
    return Job(name, 'C20_repro.cpp', ['-DSUBJECT=%d' % subject, '-DVARIANT=%d' % variant] + list(extra), list(libs), **kw)
RS = ['-DSRC=0,15,30,50', '-DDST=70,85,30,50', '-DR0=20,20,60,60']
JOBS['C20'] = {
    'quick': [
        rep('vpsc-repeat-n3m2', 1, 0, ['-DNC=2'], bounds='IncSolver::solve n=3 m=2 all structures, run twice, second run under reversed heap address order; ' + B_VPSC),
        rep('vpsc-translate-n3m2', 1, 1, ['-DNC=2'], bounds='IncSolver::solve n=3 m=2, problem translated by any multiple of 2^-10 in [-8,8]; ' + B_VPSC),
        rep('route-repeat', 3, 0, RS, libs=['libavoid'], bounds='orthogonal routing scene (rectangle 20,20,60,60; endpoints in boxes left/right of it) routed twice, second under reversed heap address order'),
        rep('route-translate', 3, 1, RS, libs=['libavoid'], bounds='same scene translated by (tx,ty), any multiples of 2^-10 in [-8,8]'),
        rep('route-mirror', 3, 2, RS, libs=['libavoid'], bounds='same scene mirrored x -> -x (the mirrored scene lies at negative x): equal route cost'),
    ],
    'thorough': [
        rep('vpsc-repeat-n3m3', 1, 0, bounds='IncSolver::solve n=3 m=3 all structures, run twice, second run under reversed heap address order; ' + B_VPSC, time_limit=2400),
    ],
}
ASSUMPTIONS['C20'] = ['"irrespective of what was allocated in between" is modelled by unrelated allocations plus a reversal of the heap address order for the second run (executor option): this flips every comparison of addresses of distinct heap objects; other address permutations are outside the bound',
                      'libcola layout positions (descent arithmetic) and polyline routing are outside the claim']

# ----------------------------------------------------------------------------------------------- C06
JOBS['C06'] = {
    'quick': [Job('history-1step-straight', 'C06_incremental.cpp', ['-DNSTEPS=1', '-DA_ASIDE'], ['libavoid'], bounds='as history-1step, but A=(200,100,240,140) lies far aside (no shape side projects onto the straight line), so the initial route can be one straight segment (aligned endpoints are a branch boundary); then every 1-step history'),
              Job('history-1step-nomove', 'C06_incremental.cpp', ['-DNSTEPS=1', '-DOPMASK=30'], ['libavoid'], bounds='rectangle A=(20,20,60,60) between the endpoints; every 1-step history from {delete A, add B, move source, empty transaction} (moving A is in the thorough tier)'),
    ],
    'thorough': [],      # (the 1-step history with shape moves and the 2-step histories did not finish within 40 min on 16 cores and were dropped)
}
ASSUMPTIONS['C06'] = ['orthogonal routing only (polyline costs need sqrt of symbolic values); documented preconditions respected: no add+delete of one shape in a transaction, endpoints never inside a shape']

# ----------------------------------------------------------------------------------------------- C11
def pin(name, part, extra=(), **kw):
    return Job(name, 'C11_pins.cpp', ['-DPART=%d' % part] + list(extra), ['libavoid'], **kw)
JOBS['C11'] = {
    'quick': [
        pin('pin-formula', 1, bounds='rectangle with integer min corner in [-50,50]^2 and size in [2,40]^2, inside offset in {0,1}: all 9 proportional pins + absolute MIN/MAX pins vs the documented position formula and default directions'),
        pin('pins-1conn', 0, ['-DNCONN=1', '-DMOVE=0'], bounds='shapeBufferDistance 4; shape 40x20 at (40..50, 40..50) with exclusive LEFT and RIGHT pins of one class, 1 connector to any free point in [0,140]x[100,110]'),
        pin('pins-1conn-move', 0, ['-DNCONN=1', '-DFREEFIX'], bounds='same shape (symbolic position), free end (60,100); the shape is then moved by any (dx,dy) in [-15,15]^2 and re-routed'),
        pin('pins-1conn-buf0', 0, ['-DNCONN=1', '-DBUF=0', '-DMOVE=0'], bounds='same scene with shapeBufferDistance 0 (the default): the pin lies on the shape-side visibility line'),
        pin('checkpoint', 2, bounds='connector from a free point in [0,10]x[40,60] via a checkpoint in [45,55]x[90,100] to a free point in [100,120]x[40,60], one rectangle between: raw and displayed route pass through the checkpoint'),
        pin('junction-end', 3, bounds='connector from a free point in [0,10]x[40,60] to a junction in [100,120]x[40,60], one rectangle between'),
        pin('checkpoint-junction', 4, bounds='checkpoint as above on a connector whose far end is attached to a junction'),
    ],
    'thorough': [
        pin('pins-2conn-exclusive', 0, ['-DNCONN=2', '-DFREEFIX'], bounds='same shape, 2 connectors to the class with two exclusive pins (capacity reached), then moved'),
    ],
}
ASSUMPTIONS['C11'] = ['orthogonal routing; at most 2 pins per class, 2 connectors, 1 checkpoint; rectangular shapes']

# ----------------------------------------------------------------------------------------------- C15
def life(name, subject, extra=(), libs=('libavoid',), **kw):
    return Job(name, 'C15_lifecycle.cpp', ['-DSUBJECT=%d' % subject] + list(extra), list(libs), **kw)
JOBS['C15'] = {
    'quick': [
        life('router-history-2-processed', 1, ['-DNSTEPS=2', '-DINITIAL=1', '-DFINAL=1', '-DCONCRETE_END', '-DOPMASK=124'], bounds='orthogonal Router with shape A (2 pins, one in use), connector pin->(150,47) (moves of the shape and of the endpoint are symbolic); initial transaction, then every 2-step history over {move A, delete A (pin in use), delete connector, add connector, move endpoint}, final transaction, destroy'),
        life('router-aligned-move', 1, ['-DNSTEPS=1', '-DINITIAL=1', '-DFINAL=1', '-DCONCRETE_END', '-DENDY=40', '-DOPMASK=4', '-DALLOW_ALIGNED'], bounds='connector from the RIGHT pin (60,40) to the collinear point (150,40); initial transaction, moveShape(A, dx, dy) with symbolic (dx,dy) in [-10,10]^2, transaction'),
        life('router-history-2-queued', 1, ['-DNSTEPS=2', '-DINITIAL=2', '-DFINAL=0', '-DCONCRETE_END', '-DOPMASK=47'], bounds='menu {processTransaction, add shape, move A, delete A, add connector}; the history starts from a processed or an all-queued scene and the router is destroyed with whatever is still queued'),
        life('incsolver-history-3', 2, ['-DNSTEPS=3'], libs=['libvpsc'], bounds='IncSolver on 3 variables: every 3-step history over {satisfy, solve, addConstraint(symbolic), change desired positions}; then destroy'),
        life('fdlayout-lifecycle', 3, libs=COLA_LIBS, exclude=('libcola/output_svg.cpp',), bounds='ConstrainedFDLayout on 2 symbolic (overlapping) rectangles: every subset of {setConstraints, setAvoidNodeOverlaps, setUnsatisfiableConstraintInfo, makeFeasible, makeFeasible again}; destroy without run'),
    ],
    'thorough': [
        life('router-history-2-full', 1, ['-DNSTEPS=2', '-DINITIAL=2', '-DFINAL=2', '-DCONCRETE_END'], bounds='full menu of 7 operations, optional initial and final transaction, every 2-step history', time_limit=3000),
        life('router-history-3', 1, ['-DNSTEPS=3', '-DINITIAL=1', '-DFINAL=2', '-DCONCRETE_END', '-DOPMASK=124'], bounds='initial transaction, every 3-step history over {move A, delete A, delete connector, add connector, move endpoint}, optional final transaction', time_limit=3000),
    ],
}
ASSUMPTIONS['C15'] = ['the monitors (bounds, use-after-free, double free, uninitialised reads incl. bit-fields, division by zero, llvm.unreachable/trap, library assertions, uncaught exceptions, step budget, leak at exit) run on every path of every harness of every property; this check adds the object-lifecycle histories', 'allocation failure and threads are outside the claim; signed-overflow UB already folded by -O1 is not visible in the IR']

# ----------------------------------------------------------------------------------------------- C10
def nudge(name, extra=(), **kw):
    return Job(name, 'C10_nudge.cpp', list(extra), ['libavoid'], **kw)
B_NUDGE = 'orthogonal Router, wall (40..46,-200)-(60..66,40) (symbolic x shift), connector 1 from (0, 0..8) to (100, 0..8), connector 2 from (6, 12..20) to (94, 12..20): both must pass under the wall and share three corridors; '
JOBS['C10'] = {
    'quick': [nudge('wall-2conns-d4', ['-DNUDGE=4'], bounds=B_NUDGE + 'idealNudgingDistance 4'),
              nudge('edge-hugging-d4', ['-DNUDGE=4', '-DSCENE=2', '-DAYFIX=30'], opts={'band_budget': 3}, bounds='[at most 3 comparisons per path are explored both ways inside their rounding band; later inexact comparisons are decided as in exact real arithmetic] rectangle (10,10)-(30,30); connector 1 from (-10,30) to (50,30) runs along the bottom edge; connector 2 from (0,y2) to (40,y2), y2 in [20,28], has to go around the rectangle; idealNudgingDistance 4')],
    'thorough': [nudge('wall-2conns-d10', ['-DNUDGE=10'], bounds=B_NUDGE + 'idealNudgingDistance 10'),
                 nudge('wall-2conns-d4-shapes', ['-DNUDGE=4', '-DOPT_SHAPES'], bounds=B_NUDGE + 'distance 4, nudgeOrthogonalSegmentsConnectedToShapes')],
}
ASSUMPTIONS['C10'] = ['two connectors, one shape; the shared corridors lie in unbounded free space (channel wide enough); endpoints are free points (no pins)']

# ----------------------------------------------------------------------------------------------- C12
def hyp(name, extra=(), **kw):
    return Job(name, 'C12_hyperedge.cpp', list(extra), ['libavoid'], **kw)
B_HYP = 'orthogonal Router, three 20x20 shapes (0,40),(120,0),(120,80) each with an exclusive pin facing the middle, one free junction at any integer point of [40,100]x[20,80], three connectors junction->pin; '
JOBS['C12'] = {
    'quick': [hyp('improve-moving-line', ['-DIMPROVE=1', '-DJYFIX=45'], bounds=B_HYP.replace('any integer point of [40,100]x[20,80]', 'any integer point (x,45), x in [40,100]') + 'improveHyperedgeRoutesMovingJunctions'),
              hyp('improve-staircase-buf4', ['-DIMPROVE=1', '-DSCENE=2', '-DJYFIX=20'], bounds='shapeBufferDistance 4; 10x10 shapes centred (100,-20) [left pin], (60,60) [top pin], (40,100) [right pin]; junction at (x,20), x in [34,46]; three connectors junction->pin; improveHyperedgeRoutesMovingJunctions')],
    'thorough': [
                 hyp('improve-addremove', ['-DIMPROVE=1', '-DADDREMOVE', '-DJYFIX=45'], bounds=B_HYP + 'improveHyperedgeRoutesMovingAddingAndDeletingJunctions'),
                 hyp('reroute-by-terminals', ['-DREROUTE_TERMS'], bounds='three shapes with pins (one shifted by a symbolic dx in [-10,10]); the hyperedge is registered with the HyperedgeRerouter by its list of three terminals only; the rerouter creates junction(s) and connectors'),
                 hyp('reroute-registered', ['-DIMPROVE=1', '-DREROUTE', '-DJYFIX=45'], bounds=B_HYP + 'hyperedge registered (by junction) with the HyperedgeRerouter for full rerouting')],
}
ASSUMPTIONS['C12'] = ['3 terminals, no obstacles between them, one hyperedge; larger hyperedges are outside the bound']

# ----------------------------------------------------------------------------------------------- C13
TOPO_LIBS = ['libvpsc', 'libcola', 'libavoid', 'libtopology']
def topo(name, conf, axis, mover=2, **kw):
    return Job(name, 'C13_topology.cpp', ['-DCONF=%d' % conf, '-DAXIS=%d' % axis, '-DMOVER=%d' % mover], TOPO_LIBS, exclude=('libcola/output_svg.cpp',), libdefs=['-DNDEBUG'], **kw)
B_TOPO = 'three rectangles, one straight edge between the centres of nodes 0 and 1; the third node gets ANY integer desired position in [-80,200] in the chosen axis; TopologyConstraints::solve() iterated to completion; '
JOBS['C13'] = {
    'quick': [topo('bend-conf1-x', 1, 0, bounds=B_TOPO + 'configuration of libtopology/tests/simple_bend test3, horizontal')],
    'thorough': [topo('bend-conf2-x', 2, 0, bounds=B_TOPO + 'simple_bend test2, horizontal'), topo('bend-conf3-y', 3, 1, bounds=B_TOPO + 'mover below a horizontal edge, vertical axis'),
                 topo('bend-conf1-y', 1, 1, bounds=B_TOPO + 'test3, vertical')],
}
ASSUMPTIONS['C13'] = ['the libraries are compiled with -DNDEBUG for this check (IR and native replay alike): libtopology\'s debug assertions re-check the geometry with divisions by values that are only known up to rounding, which the executor cannot bound; the harness asserts the property itself instead', 'force computation (compute_forces: sqrt of symbolic lengths) is outside the executor arithmetic: desired positions are supplied symbolically instead, which covers every move a force could request in one axis; 3 nodes, 1 edge']

# ----------------------------------------------------------------------------------------------- C04
JOBS['C04'] = {
    'quick': [Job('poly-1rect-left', 'C04_polyline.cpp', ['-DSYLO=0', '-DSYHI=80'], ['libavoid'], bounds='PolyLineRouting, rectangle (20,20)-(60,60), source (0, y) for ANY integer y in [0,80], destination (80,40), penalties 0: route valid and no longer than every valid path through <= 2 corners')],
    'thorough': [Job('poly-1rect-left-wide', 'C04_polyline.cpp', ['-DSYLO=-120', '-DSYHI=200'], ['libavoid'], bounds='same, source (0, y) for any integer y in [-120,200]', time_limit=1500)],
}
ASSUMPTIONS['C04'] = ['one rectangle; the source moves on a line (one symbolic coordinate); sqrt is modelled as a fresh non-negative real r with r*r = x plus a rounding-error bound']
