"""Job lists per property and tier (see DESIGN.md section 5).  Each Job = one harness instantiation that the
symbolic executor explores exhaustively; 'bounds' is the stated bound of that job."""
from driver import Job

COMMON_ASSUMPTIONS = [
    'LLVM IR produced by clang++-14 -O1 (-ffp-contract=off, no vectorisation) from /repo working tree is a faithful compilation of the sources (cross-checked per path against the native g++ -O0 build: traces_validated_against_impl)',
    'own LLVM-IR interpreter + floating-point model (exact real term + rational rounding-error bound, exactness for dyadic values below 2^53) is sound; z3 answers are correct',
    'C models of non-header libstdc++ pieces (rb-tree rebalancing as unbalanced BST, list hooks, qsort as insertion sort, std::string out-of-line members, hash primes) behave like libstdc++ for observable results',
    'allocation never fails; single thread; ostream/printf/logging bodies are stubbed out',
    'claims hold only inside the stated bounds of each job (sizes, input ranges, menus)',
]
ASSUMPTIONS = {}
JOBS = {}

def vp(name, nv, nc, mode, extra=(), libs=('libvpsc',), **kw):
    return Job(name, 'C01_vpsc.cpp', ['-DNV=%d' % nv, '-DNC=%d' % nc, '-DMODE=%d' % mode] + list(extra), list(libs), **kw)

B_VPSC = 'desired positions integers in [-4,4], gaps integers in [-2,3], every (left,right) assignment with left!=right (symbolic choice), weights 1, scales 1 unless stated'
AV = ['-DAVOID_COPY']
JOBS['C01'] = {
    'quick': [
        vp('inc-satisfy-n3m3', 3, 3, 0, bounds='IncSolver::satisfy, n=3 m=3 (all 216 structures incl. cycles, duplicates); ' + B_VPSC),
        vp('inc-solve-n3m2-eq', 3, 2, 1, ['-DEQSYM'], bounds='IncSolver::solve, n=3 m=2, equality flag symbolic; ' + B_VPSC),
        vp('static-satisfy-n3m2', 3, 2, 2, bounds='Solver::satisfy on acyclic structures, n=3 m=2; ' + B_VPSC),
        vp('static-solve-n3m2', 3, 2, 3, bounds='Solver::solve on acyclic structures, n=3 m=2; ' + B_VPSC),
        vp('inc-resolve-n3m2', 3, 2, 1, ['-DHISTORY=1'], bounds='IncSolver::solve, move all desired positions (symbolic), solve again; n=3 m=2; ' + B_VPSC),
        vp('inc-addcons-n3m2', 3, 2, 0, ['-DHISTORY=2'], bounds='IncSolver::satisfy, addConstraint(symbolic) on the live solver, satisfy again; n=3 m=2(+1); ' + B_VPSC),
        vp('inc-solve-n3m2-wts', 3, 2, 1, ['-DWEIGHTS=1,2,1', '-DSCALES=1,2,1'], bounds='IncSolver::solve, weights (1,2,1) scales (1,2,1); n=3 m=2; ' + B_VPSC),
        vp('inc-solve-n2m1-nonint', 2, 1, 1, ['-DNONINT'], bounds='IncSolver::solve, arbitrary double desired positions in [-4,4], gap in [-2,3] (inexact arithmetic, banded comparisons); n=2 m=1'),
    ],
    'thorough': [
        vp('inc-solve-n3m3', 3, 3, 1, bounds='IncSolver::solve, n=3 m=3 all 216 structures; ' + B_VPSC),
        vp('inc-satisfy-n3m3-eq', 3, 3, 0, ['-DEQSYM'], bounds='IncSolver::satisfy, n=3 m=3, equality flags symbolic; ' + B_VPSC),
        vp('static-solve-n3m3', 3, 3, 3, bounds='Solver::solve on acyclic structures n=3 m=3; ' + B_VPSC),
        vp('inc-resolve-n3m3', 3, 3, 1, ['-DHISTORY=1'], bounds='solve / move desired positions / solve; n=3 m=3; ' + B_VPSC),
        vp('inc-addcons-n3m3', 3, 3, 1, ['-DHISTORY=2'], bounds='solve / addConstraint / solve; n=3 m=3(+1); ' + B_VPSC),
        vp('inc-solve-n3m3-wts', 3, 3, 1, ['-DWEIGHTS=2,1,2', '-DSCALES=1,2,1'], bounds='weights (2,1,2), scales (1,2,1); n=3 m=3; ' + B_VPSC),
        vp('inc-satisfy-n4m3', 4, 3, 0, bounds='IncSolver::satisfy n=4 m=3 all structures; ' + B_VPSC),
        vp('inc-solve-n3m2-nonint', 3, 2, 1, ['-DNONINT'], bounds='IncSolver::solve, arbitrary doubles; n=3 m=2'),
        vp('avoid-solve-n3m3', 3, 3, 1, AV, libs=['libavoid'], bounds='Avoid::IncSolver::solve (libavoid/vpsc.cpp) n=3 m=3; ' + B_VPSC),
    ],
}
ASSUMPTIONS['C01'] = ['static Solver is only run on acyclic constraint graphs (its documented domain)', 'a constraint relates two distinct variables (left != right)']
JOBS['C02'] = {
    'quick': [
        vp('inc-kkt-n3m3', 3, 3, 1, ['-DKKT'], bounds='IncSolver::solve + KKT certificate check, n=3 m=3 all structures; ' + B_VPSC),
        vp('inc-kkt-permute-n3m2', 3, 2, 1, ['-DKKT', '-DPERMUTE'], bounds='+ reversed variable/constraint order gives the same optimum; n=3 m=2; ' + B_VPSC),
        vp('static-kkt-n3m2', 3, 2, 3, ['-DKKT'], bounds='Solver::solve (acyclic) + KKT; n=3 m=2; ' + B_VPSC),
        vp('avoid-kkt-n3m2', 3, 2, 1, ['-DKKT'] + AV, libs=['libavoid'], bounds='Avoid::IncSolver::solve + KKT; n=3 m=2; ' + B_VPSC),
        vp('inc-kkt-resolve-n3m2', 3, 2, 1, ['-DKKT', '-DHISTORY=1'], bounds='solve / move desired positions / solve, KKT after each; n=3 m=2; ' + B_VPSC),
        vp('inc-kkt-n3m2-scaled', 3, 2, 1, ['-DKKT', '-DWEIGHTS=1,2,1', '-DSCALES=1,2,1'], bounds='weights (1,2,1) scales (1,2,1); n=3 m=2; ' + B_VPSC),
    ],
    'thorough': [
        vp('inc-kkt-permute-n3m3', 3, 3, 1, ['-DKKT', '-DPERMUTE'], bounds='n=3 m=3 all structures, KKT + order independence; ' + B_VPSC),
        vp('static-kkt-n3m3', 3, 3, 3, ['-DKKT'], bounds='Solver::solve (acyclic) n=3 m=3; ' + B_VPSC),
        vp('avoid-kkt-n3m3', 3, 3, 1, ['-DKKT'] + AV, libs=['libavoid'], bounds='Avoid::IncSolver n=3 m=3; ' + B_VPSC),
        vp('inc-kkt-resolve-n3m3', 3, 3, 1, ['-DKKT', '-DHISTORY=1'], bounds='re-solve after moving desired positions, n=3 m=3; ' + B_VPSC),
        vp('inc-kkt-addcons-n3m2', 3, 2, 1, ['-DKKT', '-DHISTORY=2'], bounds='solve / addConstraint / solve with KKT; n=3 m=2(+1); ' + B_VPSC),
        vp('inc-kkt-n3m3-scaled', 3, 3, 1, ['-DKKT', '-DWEIGHTS=2,1,2', '-DSCALES=1,2,1'], bounds='weights (2,1,2) scales (1,2,1); n=3 m=3; ' + B_VPSC),
        vp('inc-kkt-n4m3', 4, 3, 1, ['-DKKT'], bounds='n=4 m=3 all structures; ' + B_VPSC),
        vp('inc-kkt-n4m4-chain', 4, 4, 1, ['-DKKT', '-DSTRUCT_L=0,1,2,0', '-DSTRUCT_R=1,2,3,3'], bounds='n=4 m=4 fixed structure chain+chord; ' + B_VPSC),
    ],
}
ASSUMPTIONS['C02'] = ASSUMPTIONS['C01'] + ['optimality is established by checking a KKT certificate (primal feasibility, tight active set forming a forest, multipliers >= -2e-4, stationarity residual <= 1e-5); for a strictly convex QP this implies the unique optimum']

# ----------------------------------------------------------------------------------------------- C16
def geo(name, which, g=1048576, extra=(), **kw):
    return Job(name, 'C16_geometry.cpp', ['-DWHICH=%d' % which, '-DG=%d' % g] + list(extra), ['libavoid'], **kw)
B_GEO = 'all integer coordinates in [-2^20, 2^20] (products < 2^53: the double arithmetic of the real code is exact); '
JOBS['C16'] = {
    'quick': [
        geo('vecDir', 1, bounds=B_GEO + 'vecDir vs exact sign of the cross product + antisymmetry/rotation'),
        geo('segmentIntersect', 2, bounds=B_GEO + 'segmentIntersect vs exact proper crossing + 3 symmetries'),
        geo('pointOnLine-colinear-inBetween', 3, bounds=B_GEO + 'pointOnLine/colinear/inBetween vs exact open-segment membership'),
        geo('segmentShapeIntersect', 4, bounds=B_GEO + 'segmentShapeIntersect (both values of the seen-endpoint flag) vs exact definition + reversal symmetry'),
        geo('inPoly-triangle', 5, bounds=B_GEO + 'inPoly (both countBorder) on all positively oriented non-degenerate triangles'),
        geo('inPolyGen-triangle', 5, g=1024, extra=['-DGEN'], bounds='coordinates in [-1024,1024]; inPolyGen (and inPoly) on all positively oriented non-degenerate triangles; the sign of each ray-crossing quotient is exact'),
        geo('inValidRegion-cornerSide', 7, bounds=B_GEO + 'inValidRegion (both IgnoreRegions) and cornerSide vs exact cone/corner definitions'),
        geo('intersectPoint-class', 8, bounds=B_GEO + 'segmentIntersectPoint / rayIntersectPoint classification vs exact closed-segment intersection'),
    ],
    'thorough': [
        geo('inPoly-quad', 6, g=1024, bounds='coordinates in [-1024,1024]; inPoly/inPolyGen on all convex quadrilaterals with distinct vertices'),
        geo('intersectPoint-point', 8, g=64, extra=['-DPOINTCHK'], bounds='coordinates in [-64,64]; returned intersection point lies on both lines to 1e-6'),
    ],
}
ASSUMPTIONS['C16'] = ['pointOnLine/inBetween are specified as open-segment tests (strict inequalities), which is what the code and its callers implement, although the source comments say "closed"',
                      'inPoly is specified for convex polygons whose vertex order makes vecDir(prev,cur,next) >= 0 (libavoid shape convention)']

# ----------------------------------------------------------------------------------------------- C03 / C05 (orthogonal pipeline)
def scene(name, src, dst, r0, r1=None, extra=(), **kw):
    d = ['-DSRC=%s' % src, '-DDST=%s' % dst, '-DR0=%s' % r0] + (['-DR1=%s' % r1] if r1 else []) + list(extra)
    kw.setdefault('bounds', 'orthogonal Router, rectangle(s) %s%s, source in box %s, destination in box %s (x0,x1,y0,y1; all integer points), %s' % (r0, (' and ' + r1) if r1 else '', src, dst, ' '.join(extra) or 'segmentPenalty 50'))
    return Job(name, 'C03_route.cpp', d, ['libavoid'], **kw)
SCENES_Q = [
    scene('across-1rect', '0,15,30,50', '70,85,30,50', '20,20,60,60'),
    scene('corner-1rect', '0,15,30,50', '30,50,65,80', '20,20,60,60'),
    scene('two-rects-L', '6,8,0,3', '0,3,4,7', '0,0,5,3', '4,4,5,7', extra=['-DPEN=10']),
]
JOBS['C03'] = {'quick': SCENES_Q, 'thorough': []}
JOBS['C05'] = {'quick': SCENES_Q, 'thorough': []}

# ----------------------------------------------------------------------------------------------- C17
def sp(name, nn, ne, extra=(), libs=(), **kw):
    return Job(name, 'C17_paths.cpp', ['-DNN=%d' % nn, '-DNE=%d' % ne] + list(extra), list(libs), **kw)
JOBS['C17'] = {
    'quick': [
        sp('apsp-n3e3', 3, 3, bounds='all multigraphs on 3 nodes with 3 edges (every endpoint assignment incl. self-loops and parallel edges), integer weights in [0,8]'),
    ],
    'thorough': [],
}
ASSUMPTIONS['C17'] = []
JOBS['C05'] = {'quick': [Job('bends-admissible', 'C05_bends.cpp', [], ['libavoid'], bounds='start point in [-8,8]^2, 4 start directions, every orthogonal path with <= 4 bends (turn directions symbolic), segment lengths <= 6')] + SCENES_Q, 'thorough': []}

# ----------------------------------------------------------------------------------------------- C18
def sepj(name, part, gapmode, **kw):
    return Job(name, 'C18_seppair.cpp', ['-DPART=%d' % part, '-DGAPMODE=%d' % gapmode], ['libvpsc', 'libavoid', 'libcola', 'libtopology', 'libdialect'], **kw)
B_SEP = 'all 2 gap types x 8 directions x 2 relations (x 7 transforms); node centres integers in [-20,20]^2, node sizes even integers in [2,12]; '
GM = {0: 'gap any multiple of 1/2 in (0,12.5]', 1: 'gap = +0.0', 2: 'gap = -0.0'}
JOBS['C18'] = {'quick': [sepj('%s-gap%d' % (n, g), p, g, bounds=B_SEP + GM[g] + '; ' + d)
                         for (p, n, d) in ((0, 'commute', 'transform/geometry equivalence'), (1, 'group', 'dihedral group laws'), (2, 'storage-vpsc', '(a,b)/(b,a) storage and generated vpsc constraints'))
                         for g in (0, 1, 2)],
               'thorough': []}
ASSUMPTIONS['C18'] = ['TGLF write/read round trip is outside the claim: iostream formatting/parsing is stubbed in the executor (DESIGN.md 2.5)',
                      'constraint semantics (sign bit of the gap selects the left node; BDRY adds the mean extent) are written in the harness from the documentation in constraints.h']

# ----------------------------------------------------------------------------------------------- C19
DIALECT_LIBS = ['libvpsc', 'libavoid', 'libcola', 'libtopology', 'libdialect']
def dec(name, part, nn, **kw):
    return Job(name, 'C19_decomp.cpp', ['-DPART=%d' % part, '-DNN=%d' % nn], DIALECT_LIBS, **kw)
JOBS['C19'] = {
    'quick': [
        dec('peel-n4', 0, 4, bounds='dialect::peel on every connected simple graph with 4 nodes (all 64 edge subsets, disconnected ones excluded by the precondition)'),
        dec('conncomps-n4', 1, 4, bounds='Graph::getConnComps on every simple graph with 4 nodes (64 edge subsets)'),
    ],
    'thorough': [
        dec('peel-n5', 0, 5, bounds='dialect::peel on every connected simple graph with 5 nodes (1024 edge subsets)'),
        dec('conncomps-n5', 1, 5, bounds='getConnComps on every simple graph with 5 nodes'),
    ],
}
ASSUMPTIONS['C19'] = ['peel is specified for connected graphs (disconnected inputs trip its internal assertion: precondition, see DESIGN.md 7.4)',
                      'std::unordered containers / hashing are modelled (engine/strmodels.py); results that depended on hash iteration order would show up as native/symbolic output mismatches']
