"""Job lists per property and tier (see DESIGN.md section 5).  Each Job = one harness instantiation that the
symbolic executor explores exhaustively; 'bounds' is the stated bound of that job."""
from driver import Job

COMMON_ASSUMPTIONS = [
    'LLVM IR produced by clang++-14 -O1 (-ffp-contract=off, no vectorisation) from /repo working tree is a faithful compilation of the sources (cross-checked per path against the native g++ -O0 build: traces_validated_against_impl)',
    'own LLVM-IR interpreter + floating-point model (exact real term + rational rounding-error bound, exactness for dyadic values below 2^53) is sound; z3 answers are correct',
    'C models of non-header libstdc++ pieces (rb-tree rebalancing as unbalanced BST, list hooks, qsort as insertion sort, std::string out-of-line members, hash primes) behave like libstdc++ for observable results',
    'allocation never fails; single thread; ostream/printf/logging bodies are stubbed out',
    'claims hold only inside the stated bounds of each job (sizes, input ranges, menus)',
]
ASSUMPTIONS = {}
JOBS = {}

def vp(name, nv, nc, mode, extra=(), libs=('libvpsc',), **kw):
    return Job(name, 'C01_vpsc.cpp', ['-DNV=%d' % nv, '-DNC=%d' % nc, '-DMODE=%d' % mode] + list(extra), list(libs), **kw)

B_VPSC = 'desired positions integers in [-4,4], gaps integers in [-2,3], every (left,right) assignment with left!=right (symbolic choice), weights 1, scales 1 unless stated'
AV = ['-DAVOID_COPY']
JOBS['C01'] = {
    'quick': [
        vp('inc-satisfy-n3m3', 3, 3, 0, bounds='IncSolver::satisfy, n=3 m=3 (all 216 structures incl. cycles, duplicates); ' + B_VPSC),
        vp('inc-solve-n3m2-eq', 3, 2, 1, ['-DEQSYM'], bounds='IncSolver::solve, n=3 m=2, equality flag symbolic; ' + B_VPSC),
        vp('static-satisfy-n3m2', 3, 2, 2, bounds='Solver::satisfy on acyclic structures, n=3 m=2; ' + B_VPSC),
        vp('static-solve-n3m2', 3, 2, 3, bounds='Solver::solve on acyclic structures, n=3 m=2; ' + B_VPSC),
        vp('inc-resolve-n3m2', 3, 2, 1, ['-DHISTORY=1'], bounds='IncSolver::solve, move all desired positions (symbolic), solve again; n=3 m=2; ' + B_VPSC),
        vp('inc-addcons-n3m2', 3, 2, 0, ['-DHISTORY=2'], bounds='IncSolver::satisfy, addConstraint(symbolic) on the live solver, satisfy again; n=3 m=2(+1); ' + B_VPSC),
        vp('inc-solve-n3m2-wts', 3, 2, 1, ['-DWEIGHTS=1,2,1', '-DSCALES=1,2,1'], bounds='IncSolver::solve, weights (1,2,1) scales (1,2,1); n=3 m=2; ' + B_VPSC),
        vp('inc-solve-n2m1-nonint', 2, 1, 1, ['-DNONINT'], bounds='IncSolver::solve, arbitrary double desired positions in [-4,4], gap in [-2,3] (inexact arithmetic, banded comparisons); n=2 m=1'),
    ],
    'thorough': [
        vp('inc-solve-n3m3', 3, 3, 1, bounds='IncSolver::solve, n=3 m=3 all 216 structures; ' + B_VPSC),
        vp('inc-satisfy-n3m3-eq', 3, 3, 0, ['-DEQSYM'], bounds='IncSolver::satisfy, n=3 m=3, equality flags symbolic; ' + B_VPSC),
        vp('static-solve-n3m3', 3, 3, 3, bounds='Solver::solve on acyclic structures n=3 m=3; ' + B_VPSC),
        vp('inc-resolve-n3m3', 3, 3, 1, ['-DHISTORY=1'], bounds='solve / move desired positions / solve; n=3 m=3; ' + B_VPSC),
        vp('inc-addcons-n3m3', 3, 3, 1, ['-DHISTORY=2'], bounds='solve / addConstraint / solve; n=3 m=3(+1); ' + B_VPSC),
        vp('inc-solve-n3m3-wts', 3, 3, 1, ['-DWEIGHTS=2,1,2', '-DSCALES=1,2,1'], bounds='weights (2,1,2), scales (1,2,1); n=3 m=3; ' + B_VPSC),
        vp('inc-satisfy-n4m3', 4, 3, 0, bounds='IncSolver::satisfy n=4 m=3 all structures; ' + B_VPSC),
        vp('inc-solve-n3m2-nonint', 3, 2, 1, ['-DNONINT'], bounds='IncSolver::solve, arbitrary doubles; n=3 m=2'),
        vp('avoid-solve-n3m3', 3, 3, 1, AV, libs=['libavoid'], bounds='Avoid::IncSolver::solve (libavoid/vpsc.cpp) n=3 m=3; ' + B_VPSC),
    ],
}
ASSUMPTIONS['C01'] = ['static Solver is only run on acyclic constraint graphs (its documented domain)', 'a constraint relates two distinct variables (left != right)']
JOBS['C02'] = {
    'quick': [
        vp('inc-kkt-n3m3', 3, 3, 1, ['-DKKT'], bounds='IncSolver::solve + KKT certificate check, n=3 m=3 all structures; ' + B_VPSC),
        vp('inc-kkt-permute-n3m2', 3, 2, 1, ['-DKKT', '-DPERMUTE'], bounds='+ reversed variable/constraint order gives the same optimum; n=3 m=2; ' + B_VPSC),
        vp('static-kkt-n3m2', 3, 2, 3, ['-DKKT'], bounds='Solver::solve (acyclic) + KKT; n=3 m=2; ' + B_VPSC),
        vp('avoid-kkt-n3m2', 3, 2, 1, ['-DKKT'] + AV, libs=['libavoid'], bounds='Avoid::IncSolver::solve + KKT; n=3 m=2; ' + B_VPSC),
        vp('inc-kkt-resolve-n3m2', 3, 2, 1, ['-DKKT', '-DHISTORY=1'], bounds='solve / move desired positions / solve, KKT after each; n=3 m=2; ' + B_VPSC),
        vp('inc-kkt-n3m2-scaled', 3, 2, 1, ['-DKKT', '-DWEIGHTS=1,2,1', '-DSCALES=1,2,1'], bounds='weights (1,2,1) scales (1,2,1); n=3 m=2; ' + B_VPSC),
    ],
    'thorough': [
        vp('inc-kkt-permute-n3m3', 3, 3, 1, ['-DKKT', '-DPERMUTE'], bounds='n=3 m=3 all structures, KKT + order independence; ' + B_VPSC),
        vp('static-kkt-n3m3', 3, 3, 3, ['-DKKT'], bounds='Solver::solve (acyclic) n=3 m=3; ' + B_VPSC),
        vp('avoid-kkt-n3m3', 3, 3, 1, ['-DKKT'] + AV, libs=['libavoid'], bounds='Avoid::IncSolver n=3 m=3; ' + B_VPSC),
        vp('inc-kkt-resolve-n3m3', 3, 3, 1, ['-DKKT', '-DHISTORY=1'], bounds='re-solve after moving desired positions, n=3 m=3; ' + B_VPSC),
        vp('inc-kkt-addcons-n3m2', 3, 2, 1, ['-DKKT', '-DHISTORY=2'], bounds='solve / addConstraint / solve with KKT; n=3 m=2(+1); ' + B_VPSC),
        vp('inc-kkt-n3m3-scaled', 3, 3, 1, ['-DKKT', '-DWEIGHTS=2,1,2', '-DSCALES=1,2,1'], bounds='weights (2,1,2) scales (1,2,1); n=3 m=3; ' + B_VPSC),
        vp('inc-kkt-n4m3', 4, 3, 1, ['-DKKT'], bounds='n=4 m=3 all structures; ' + B_VPSC),
        vp('inc-kkt-n4m4-chain', 4, 4, 1, ['-DKKT', '-DSTRUCT_L=0,1,2,0', '-DSTRUCT_R=1,2,3,3'], bounds='n=4 m=4 fixed structure chain+chord; ' + B_VPSC),
    ],
}
ASSUMPTIONS['C02'] = ASSUMPTIONS['C01'] + ['optimality is established by checking a KKT certificate (primal feasibility, tight active set forming a forest, multipliers >= -2e-4, stationarity residual <= 1e-5); for a strictly convex QP this implies the unique optimum']
