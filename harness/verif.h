// harness-side declarations (C++), shared by all harnesses.  The same source is compiled twice:
// by clang to LLVM IR for the symbolic executor (these functions are built into it), and by g++
// against engine/native_rt.c for the native replay binary (there they read a replay file).
#pragma once
extern "C" {
  void __CPROVER_assume(int);
  void __CPROVER_assert(int, const char *);
  void verif_out_double(double);
  void verif_out_int(int);
  int verif_int_in(int lo, int hi);          // symbolic integer in [lo,hi] (coordinate-like; relaxed to a real for proving)
  double verif_double_in(double lo, double hi); // symbolic double in [lo,hi] (any value, inexact)
  int verif_choice(int n);                   // symbolic choice in [0,n): the path is forked per feasible value
  void verif_band_nofork(int on);            // 1: inexact FP comparisons yield may/must pairs instead of forking (for branch-free oracle code; executor only)
  void verif_heap_order(int mode);           // 0: later heap objects get higher addresses; 1: lower (executor only)
}
// Harness code that does *integer* arithmetic on symbolic values must not be optimised: the executor relaxes integer
// inputs to reals for proving, and compiler rewrites that are valid only for integers (x <= 0  ->  x < 1) would
// create spurious real-valued models.  VERIF_NOOPT keeps such functions exactly as written.
#ifdef __clang__
#define VERIF_NOOPT __attribute__((optnone, noinline))
#else
#define VERIF_NOOPT
#endif
#define ASSUME(c) __CPROVER_assume((c) ? 1 : 0)
#define CHECK(c, msg) __CPROVER_assert((c) ? 1 : 0, msg)
static inline double verif_coord(int lo, int hi) { return (double)verif_int_in(lo, hi); }
// dyadic rational k / 2^s with k in [lo*2^s, hi*2^s]  (exactly representable)
static inline double verif_dyadic(int lo, int hi, int s) { return (double)verif_int_in(lo * (1 << s), hi * (1 << s)) / (double)(1 << s); }
#ifdef WITNESS
#define WITNESS_POINT() CHECK(0, "witness reachable")
#else
#define WITNESS_POINT() ((void)0)
#endif
