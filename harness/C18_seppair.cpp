// C18: libdialect SepPair / SepMatrix transforms commute with geometry.
// All GapType x SepDir x SepType x SepTransform combinations are concrete loops; the gap magnitude and the placement
// of the two nodes (centres, sizes) are symbolic, so each CHECK is decided for all placements at once.
//   -DGAPMODE=0  symbolic gap in (0,GB]   1: concrete +0.0   2: concrete -0.0
//   -DPART=0 transform/geometry equivalence, 1 group laws, 2 (a,b)/(b,a) storage + generated vpsc constraints
#include "verif.h"
#include <cmath>
#include <map>
#include <string>
#include <stdexcept>
#include "libdialect/constraints.h"
#include "libdialect/graphs.h"
#include "libvpsc/variable.h"
#include "libvpsc/constraint.h"
#include "libvpsc/rectangle.h"
using namespace dialect;
#ifndef GAPMODE
#define GAPMODE 0
#endif
#ifndef PART
#define PART 0
#endif
#ifndef GB
#define GB 12
#endif
#ifndef PB
#define PB 20
#endif

// the stored SepPair is reached through SepMatrix's private lookup; access via explicit template instantiation
// (standard C++: access checks do not apply to explicit-instantiation arguments), no change to the class
template <typename Tag, typename Tag::type M> struct Rob { friend typename Tag::type get(Tag) { return M; } };
struct SMCheck { typedef SepPair_SP (SepMatrix::*type)(id_type, id_type) const; friend type get(SMCheck); };
template struct Rob<SMCheck, &SepMatrix::checkSepPair>;
static SepPair_SP stored_pair(const SepMatrix &m, id_type a, id_type b) { return (m.*get(SMCheck()))(a, b); }

struct Place { double x, y, w, h; };      // centre and size

// semantics of a stored SepPair on a placement of (src, tgt), written from the documentation in constraints.h:
// a gap with the sign bit set means "tgt is the left/upper node"; BDRY gaps add the mean extent of the two nodes.
static bool sat_dim(SepType st, GapType gt, double gap, double cs, double ct, double es, double et) {
    if (st == SepType::NONE) return true;
    bool flip = std::signbit(gap);
    double g = flip ? -gap : gap;
    if (gt == GapType::BDRY) g = g + (es + et) / 2.0;
    double lo = flip ? ct : cs, hi = flip ? cs : ct;
    if (st == SepType::EQ) return lo + g == hi;
    return lo + g <= hi;
}
static bool sat(const SepPair &sp, const Place &s, const Place &t) {
    bool a = sat_dim(sp.xst, sp.xgt, sp.xgap, s.x, t.x, s.w, t.w);
    bool b = sat_dim(sp.yst, sp.ygt, sp.ygap, s.y, t.y, s.h, t.h);
    return a & b;
}
// the eight symmetries acting on the plane (screen coordinates: y grows downwards)
static Place tf_place(SepTransform tf, const Place &p) {
    Place q = p;
    switch (tf) {
    case SepTransform::ROTATE90CW:  q.x = -p.y; q.y = p.x;  q.w = p.h; q.h = p.w; break;
    case SepTransform::ROTATE90ACW: q.x = p.y;  q.y = -p.x; q.w = p.h; q.h = p.w; break;
    case SepTransform::ROTATE180:   q.x = -p.x; q.y = -p.y; break;
    case SepTransform::FLIPV:       q.x = -p.x; break;
    case SepTransform::FLIPH:       q.y = -p.y; break;
    case SepTransform::FLIPMD:      q.x = p.y;  q.y = p.x;  q.w = p.h; q.h = p.w; break;
    case SepTransform::FLIPOD:      q.x = -p.y; q.y = -p.x; q.w = p.h; q.h = p.w; break;
    }
    return q;
}
static bool same_double(double a, double b) { return (a == b) && (std::signbit(a) == std::signbit(b)); }
static bool same_pair(const SepPair &a, const SepPair &b) {
    return a.xgt == b.xgt && a.ygt == b.ygt && a.xst == b.xst && a.yst == b.yst &&
           same_double(a.xgap, b.xgap) && same_double(a.ygap, b.ygap);
}
static const SepTransform TFS[7] = {SepTransform::ROTATE90CW, SepTransform::ROTATE90ACW, SepTransform::ROTATE180,
    SepTransform::FLIPV, SepTransform::FLIPH, SepTransform::FLIPMD, SepTransform::FLIPOD};
static const SepDir DIRS[8] = {SepDir::EAST, SepDir::SOUTH, SepDir::WEST, SepDir::NORTH, SepDir::RIGHT, SepDir::DOWN, SepDir::LEFT, SepDir::UP};

static double in_gap(void) {
#if GAPMODE == 0
    return verif_dyadic(0, GB, 1) + 0.5;     // (0, GB+0.5], never zero
#elif GAPMODE == 1
    return 0.0;
#else
    return -0.0;
#endif
}

extern "C" void harness(void) {
    double gap = in_gap();
    Place S, T;
    S.x = verif_coord(-PB, PB); S.y = verif_coord(-PB, PB); S.w = verif_coord(1, 6) * 2; S.h = verif_coord(1, 6) * 2;
    T.x = verif_coord(-PB, PB); T.y = verif_coord(-PB, PB); T.w = verif_coord(1, 6) * 2; T.h = verif_coord(1, 6) * 2;
    for (int gi = 0; gi < 2; gi++) for (int di = 0; di < 8; di++) for (int si = 1; si <= 2; si++) {
        GapType gt = gi ? GapType::BDRY : GapType::CENTRE; SepDir sd = DIRS[di]; SepType st = si == 1 ? SepType::EQ : SepType::INEQ;
        SepPair base; base.src = 1; base.tgt = 2;
        base.addSep(gt, sd, st, gap);
#if PART == 0
        bool s0 = sat(base, S, T);
        for (int ti = 0; ti < 7; ti++) {
            SepPair q = base; q.transform(TFS[ti]);
            bool s1 = sat(q, tf_place(TFS[ti], S), tf_place(TFS[ti], T));
            CHECK(s0 == s1, "C18 placement satisfies constraint iff transformed placement satisfies transformed constraint");
        }
#elif PART == 1
        {
            SepPair q = base;
            for (int k = 0; k < 4; k++) q.transform(SepTransform::ROTATE90CW);
            CHECK(same_pair(q, base), "C18 four clockwise quarter turns give back the original constraint");
            q = base; for (int k = 0; k < 4; k++) q.transform(SepTransform::ROTATE90ACW);
            CHECK(same_pair(q, base), "C18 four anticlockwise quarter turns give back the original constraint");
            q = base; q.transform(SepTransform::ROTATE90CW); q.transform(SepTransform::ROTATE90ACW);
            CHECK(same_pair(q, base), "C18 a clockwise then an anticlockwise quarter turn cancel");
            q = base; q.transform(SepTransform::ROTATE90CW); q.transform(SepTransform::ROTATE90CW);
            SepPair r = base; r.transform(SepTransform::ROTATE180);
            CHECK(same_pair(q, r), "C18 two quarter turns equal a half turn");
            for (int ti = 2; ti < 7; ti++) {
                q = base; q.transform(TFS[ti]); q.transform(TFS[ti]);
                CHECK(same_pair(q, base), "C18 every reflection and the half turn are involutions");
            }
            // composition table of the dihedral group: FLIPV then FLIPH = ROTATE180 ; FLIPMD then FLIPV = a quarter turn
            q = base; q.transform(SepTransform::FLIPV); q.transform(SepTransform::FLIPH);
            CHECK(same_pair(q, r), "C18 the two axis flips compose to the half turn");
            q = base; q.transform(SepTransform::FLIPMD); q.transform(SepTransform::FLIPOD);
            CHECK(same_pair(q, r), "C18 the two diagonal flips compose to the half turn");
            // (x,y) -FLIPMD-> (y,x) -FLIPV-> (-y,x) = ROTATE90CW
            q = base; q.transform(SepTransform::FLIPMD); q.transform(SepTransform::FLIPV);
            SepPair c = base; c.transform(SepTransform::ROTATE90CW);
            CHECK(same_pair(q, c), "C18 main-diagonal flip then vertical-axis flip equals the clockwise quarter turn");
        }
#elif PART == 3
        {
            // history: a pair that already exists (created under either order) is overwritten through either order;
            // the result must equal a fresh matrix that only saw the last call
            for (int firstFlipped = 0; firstFlipped < 2; firstFlipped++) for (int secondFlipped = 0; secondFlipped < 2; secondFlipped++) {
                SepMatrix m(nullptr), fresh(nullptr);
                if (firstFlipped) m.addSep(2, 1, GapType::CENTRE, SepDir::SOUTH, SepType::INEQ, 3.0);
                else m.addSep(1, 2, GapType::CENTRE, SepDir::SOUTH, SepType::INEQ, 3.0);
                if (secondFlipped) { m.addSep(2, 1, gt, negateSepDir(sd), st, gap); fresh.addSep(2, 1, gt, negateSepDir(sd), st, gap); }
                else { m.addSep(1, 2, gt, sd, st, gap); fresh.addSep(1, 2, gt, sd, st, gap); }
                // the first call constrained y (SOUTH); cardinal second calls overwrite both dimensions, lateral ones only their own:
                // compare the dimension(s) the second call writes
                SepPair_SP p = stored_pair(m, 1, 2), q = stored_pair(fresh, 1, 2);
                bool writesX = (sd == SepDir::EAST) | (sd == SepDir::WEST) | (sd == SepDir::RIGHT) | (sd == SepDir::LEFT) | (sd == SepDir::SOUTH) | (sd == SepDir::NORTH);
                bool writesY = (sd == SepDir::SOUTH) | (sd == SepDir::NORTH) | (sd == SepDir::DOWN) | (sd == SepDir::UP) | (sd == SepDir::EAST) | (sd == SepDir::WEST);
                bool same = true;
                if (writesX) same = same & (p->xgt == q->xgt) & (p->xst == q->xst) & same_double(p->xgap, q->xgap);
                if (writesY) same = same & (p->ygt == q->ygt) & (p->yst == q->yst) & same_double(p->ygap, q->ygap);
                CHECK(same, "C18 re-storing an existing pair through (a,b) or (b,a) gives what a fresh store gives");
            }
        }
#elif PART == 4
        {
            // TGLF writing: the line(s) SepPair::writeTglf emits are read back by a tiny reader in the harness (format of
            // io.cpp: "<src> <tgt> <B|C> <dir letter> <==|>=> <gap>"); the re-read constraint must accept exactly the placements
            // the original accepts.  Gap *numbers* are not compared (number formatting is not modelled): the reader takes
            // the magnitude from the original.  This covers the writer's choice of gap type, direction letter and relation.
            for (int ti = -1; ti < 7; ti++) {
                SepPair q = base; if (ti >= 0) q.transform(TFS[ti]);
                SepMatrix mm(nullptr);
                std::map<id_type, unsigned> id2ext; id2ext[1] = 1; id2ext[2] = 2;
                std::string text; bool threw = false;
                try { text = q.writeTglf(id2ext, mm); } catch (std::runtime_error &e) { threw = true; }
                bool coincide = (q.xgt == GapType::CENTRE && q.xst == SepType::EQ && q.xgap == 0 && q.ygt == GapType::CENTRE && q.yst == SepType::EQ && q.ygap == 0);
                CHECK(threw == coincide, "C18 writeTglf refuses exactly the constraints that force two nodes to coincide");
                if (threw) continue;
                SepPair back; back.src = 1; back.tgt = 2;
                const char *tx = text.c_str(); size_t len = text.size(), pos = 0; int lines = 0;
                while (pos < len) {
                    // one line: up to 6 space-separated tokens (only their first two characters matter)
                    char t0[6][3]; int nt = 0;
                    while (pos < len && tx[pos] != '\n') {
                        if (nt < 6) { t0[nt][0] = tx[pos]; t0[nt][1] = (pos + 1 < len && tx[pos + 1] != ' ' && tx[pos + 1] != '\n') ? tx[pos + 1] : 0; t0[nt][2] = 0; }
                        nt++;
                        while (pos < len && tx[pos] != ' ' && tx[pos] != '\n') pos++;
                        if (pos < len && tx[pos] == ' ') pos++;
                    }
                    pos++; lines++;
                    CHECK(nt == 6 && t0[0][0] == '1' && t0[0][1] == 0 && t0[1][0] == '2' && t0[1][1] == 0, "C18 writeTglf emits well-formed lines for the pair");
                    if (nt != 6) continue;
                    GapType g2 = t0[2][0] == 'B' ? GapType::BDRY : GapType::CENTRE;
                    SepType s2 = (t0[4][0] == '=' && t0[4][1] == '=') ? SepType::EQ : SepType::INEQ;
                    char L = t0[3][0];
                    if (L == 'X') { back.addSep(GapType::CENTRE, SepDir::RIGHT, SepType::EQ, 0.0); continue; }   // "C X == 0": x-aligned
                    if (L == 'Y') { back.addSep(GapType::CENTRE, SepDir::DOWN, SepType::EQ, 0.0); continue; }
                    SepDir d2 = L == 'E' ? SepDir::EAST : L == 'S' ? SepDir::SOUTH : L == 'W' ? SepDir::WEST : L == 'N' ? SepDir::NORTH :
                                L == 'R' ? SepDir::RIGHT : L == 'D' ? SepDir::DOWN : L == 'L' ? SepDir::LEFT : SepDir::UP;
                    bool horiz = (L == 'E') | (L == 'W') | (L == 'R') | (L == 'L');
                    double og = horiz ? q.xgap : q.ygap;
                    double mag = std::signbit(og) ? -og : og;           // the number the writer printed
                    back.addSep(g2, d2, s2, mag);
                }
                CHECK(lines >= 1, "C18 writeTglf emits at least one line for a non-empty constraint");
                CHECK(sat(back, S, T) == sat(q, S, T), "C18 the TGLF text written for a constraint describes the same constraint");
            }
        }
#else
        {
            // storing under (a,b) equals storing the negated direction under (b,a)
            SepMatrix m1(nullptr), m2(nullptr);
            m1.addSep(1, 2, gt, sd, st, gap);
            m2.addSep(2, 1, gt, negateSepDir(sd), st, gap);
            SepPair_SP p1 = stored_pair(m1, 1, 2), p2 = stored_pair(m2, 1, 2);
            CHECK(p1 != nullptr && p2 != nullptr, "C18 both storage orders create the pair");
            if (p1 && p2) {
                CHECK(p1->src == 1 && p1->tgt == 2 && p2->src == 1 && p2->tgt == 2, "C18 pairs are stored under the smaller id");
                CHECK(sat(*p1, S, T) == sat(*p2, S, T), "C18 storing under (a,b) or the negation under (b,a) is equivalent");
                CHECK(sat(*p1, S, T) == sat(base, S, T), "C18 SepMatrix::addSep stores what SepPair::addSep describes");
            }
            // generated vpsc constraints mean what the stored pair means
            ColaGraphRep cgr;
            cgr.rs.push_back(new vpsc::Rectangle(S.x - S.w / 2, S.x + S.w / 2, S.y - S.h / 2, S.y + S.h / 2));
            cgr.rs.push_back(new vpsc::Rectangle(T.x - T.w / 2, T.x + T.w / 2, T.y - T.h / 2, T.y + T.h / 2));
            cgr.id2ix[1] = 0; cgr.id2ix[2] = 1; cgr.ix2id[0] = 1; cgr.ix2id[1] = 2;
            bool all = true;
            for (int dim = 0; dim < 2; dim++) {
                vpsc::Variables vs;
                vs.push_back(new vpsc::Variable(0, dim == 0 ? S.x : S.y)); vs.push_back(new vpsc::Variable(1, dim == 0 ? T.x : T.y));
                vpsc::Constraint *c = p1->generateSeparationConstraint(dim == 0 ? vpsc::XDIM : vpsc::YDIM, cgr, &m1, vs);
                bool has = p1->hasConstraintInDim(dim == 0 ? vpsc::XDIM : vpsc::YDIM);
                CHECK((c != nullptr) == has, "C18 a vpsc constraint is generated exactly for dimensions that have one");
                if (c) {
                    double l = c->left->desiredPosition, r = c->right->desiredPosition;
                    bool holds = c->equality ? (l + c->gap == r) : (l + c->gap <= r);
                    all = all & holds;
                    delete c;
                }
                delete vs[0]; delete vs[1];
            }
            CHECK(all == sat(*p1, S, T), "C18 generated vpsc constraints hold exactly when the placement satisfies the pair");
            delete cgr.rs[0]; delete cgr.rs[1];
        }
#endif
    }
    WITNESS_POINT();
}
