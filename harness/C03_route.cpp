// C03 / C05 pipeline harness: the real Avoid::Router routes one connector past 1-2 rectangles.
// Endpoints are symbolic integer points in boxes outside the shapes; the rectangles may be shifted by a
// symbolic offset.  After processTransaction():
//   C03  route has >= 2 points, starts/ends exactly at the endpoints, no segment passes through a rectangle interior
//   C05  every segment axis-parallel; the raw route's length + penalty*bends is <= that of EVERY orthogonal
//        obstacle-avoiding path with at most KMAX bends (a second, universally quantified symbolic path), and
//        paths with more bends cannot be cheaper (side condition checked)
// Configuration (all -D):
//   SRC=x0,x1,y0,y1  DST=x0,x1,y0,y1     endpoint boxes (inclusive integer ranges)
//   R0=x0,y0,x1,y1 [R1=...]              rectangles (concrete corners)
//   RSHIFT=lo,hi                         rectangle 0 is shifted in x by a symbolic integer in [lo,hi]
//   PEN=segment penalty   BUF=shape buffer distance   NUDGE_SHAPES (option nudgeOrthogonalSegmentsConnectedToShapes)
//   SRCDIR / DSTDIR = ConnDirFlags mask restricting the endpoint directions
//   KMAX  (default 4) bound on the bends of the oracle path
#include "verif.h"
#include "libavoid/libavoid.h"
using namespace Avoid;
#ifndef PEN
#define PEN 50
#endif
#ifndef KMAX
#define KMAX 4
#endif
#ifndef SRCDIR
#define SRCDIR ConnDirAll
#endif
#ifndef DSTDIR
#define DSTDIR ConnDirAll
#endif
static const int SRCB[4] = {SRC}, DSTB[4] = {DST};
static const int RC0[4] = {R0};
#ifdef R1
static const int RC1[4] = {R1};
#define NR 2
#else
#define NR 1
#endif
#ifdef RSHIFT
static const int RSH[2] = {RSHIFT};
#endif
#ifndef BUF
#define BUF 0
#endif

struct VBox { double x0, y0, x1, y1; };

// open interior of box b is hit by the closed axis-parallel segment p-q ?  (no branching: bitwise logic)
static bool hits_interior(const VBox &b, double px, double py, double qx, double qy) {
    bool xin = ((px < b.x1) | (qx < b.x1)) & ((px > b.x0) | (qx > b.x0));
    bool yin = ((py < b.y1) | (qy < b.y1)) & ((py > b.y0) | (qy > b.y0));
    return xin & yin;
}
static double dabs(double v) { return v < 0 ? -v : v; }

// length + PEN * bends of a polyline (collinear interior points are not bends; a reversal counts 2)
static double route_cost(const PolyLine &r) {
    double c = 0;
    for (size_t i = 1; i < r.size(); i++) c += dabs(r.ps[i].x - r.ps[i - 1].x) + dabs(r.ps[i].y - r.ps[i - 1].y);
    return c;
}

extern "C" void harness(void) {
    Router *router = new Router(OrthogonalRouting);
    router->setRoutingParameter(segmentPenalty, PEN);
#if BUF > 0
    router->setRoutingParameter(shapeBufferDistance, BUF);
#endif
#ifdef NUDGE_SHAPES
    router->setRoutingOption(nudgeOrthogonalSegmentsConnectedToShapes, true);
#endif
    VBox bx[NR];
    double sh = 0;
#ifdef RSHIFT
    sh = verif_coord(RSH[0], RSH[1]);
#endif
    bx[0].x0 = RC0[0] + sh; bx[0].y0 = RC0[1]; bx[0].x1 = RC0[2] + sh; bx[0].y1 = RC0[3];
#ifdef R1
    bx[1].x0 = RC1[0]; bx[1].y0 = RC1[1]; bx[1].x1 = RC1[2]; bx[1].y1 = RC1[3];
#endif
    ShapeRef *shapes[NR];
    for (int i = 0; i < NR; i++) { Rectangle rect(Point(bx[i].x0, bx[i].y0), Point(bx[i].x1, bx[i].y1)); shapes[i] = new ShapeRef(router, rect); }
    double sx = verif_coord(SRCB[0], SRCB[1]), sy = verif_coord(SRCB[2], SRCB[3]);
    double dx = verif_coord(DSTB[0], DSTB[1]), dy = verif_coord(DSTB[2], DSTB[3]);
    // endpoints lie outside the (buffered) shapes: the property's precondition
    for (int i = 0; i < NR; i++) {
        ASSUME(!((sx > bx[i].x0 - BUF) & (sx < bx[i].x1 + BUF) & (sy > bx[i].y0 - BUF) & (sy < bx[i].y1 + BUF)));
        ASSUME(!((dx > bx[i].x0 - BUF) & (dx < bx[i].x1 + BUF) & (dy > bx[i].y0 - BUF) & (dy < bx[i].y1 + BUF)));
    }
    ASSUME((sx != dx) | (sy != dy));
    ConnEnd src(Point(sx, sy), SRCDIR), dst(Point(dx, dy), DSTDIR);
    ConnRef *conn = new ConnRef(router, src, dst);
    router->processTransaction();

    const PolyLine &raw = conn->route();
    const PolyLine &disp = conn->displayRoute();
    verif_out_int((int)raw.size()); verif_out_int((int)disp.size());
    for (size_t i = 0; i < disp.size(); i++) { verif_out_double(disp.ps[i].x); verif_out_double(disp.ps[i].y); }

    for (int which = 0; which < 2; which++) {
        const PolyLine &r = which ? disp : raw;
        CHECK(r.size() >= 2, "C03 route has at least two points");
        if (r.size() < 2) continue;
        CHECK(r.ps[0].x == sx && r.ps[0].y == sy, "C03 route starts at the source endpoint");
        CHECK(r.ps[r.size() - 1].x == dx && r.ps[r.size() - 1].y == dy, "C03 route ends at the destination endpoint");
        for (size_t i = 1; i < r.size(); i++) {
            const Point &p = r.ps[i - 1], &q = r.ps[i];
            CHECK((p.x == q.x) | (p.y == q.y), "C05 every segment is axis-parallel");
            for (int k = 0; k < NR; k++)
                CHECK(!hits_interior(bx[k], p.x, p.y, q.x, q.y), "C03 no segment passes through a shape interior");
        }
    }
    // ---- C05 optimality: cost of the raw route
    double len = route_cost(raw);
    int nb = 0;
    {
        // bends: direction changes between consecutive non-degenerate segments
        int pdx = 0, pdy = 0; bool have = false;
        for (size_t i = 1; i < raw.size(); i++) {
            double ex = raw.ps[i].x - raw.ps[i - 1].x, ey = raw.ps[i].y - raw.ps[i - 1].y;
            int cdx = ex > 0 ? 1 : (ex < 0 ? -1 : 0), cdy = ey > 0 ? 1 : (ey < 0 ? -1 : 0);
            if (cdx == 0 && cdy == 0) continue;
            if (have) { if (cdx == -pdx && cdy == -pdy) nb += 2; else if (cdx != pdx || cdy != pdy) nb += 1; }
            pdx = cdx; pdy = cdy; have = true;
        }
    }
    verif_out_double(len); verif_out_int(nb);
    double cost = len + (double)PEN * nb;
    double manh = dabs(dx - sx) + dabs(dy - sy);
    // any path with more than KMAX bends costs at least manh + PEN*(KMAX+1)
    CHECK(cost <= manh + (double)PEN * (KMAX + 1), "C05 route cost is below the cost floor of paths with more than KMAX bends");
#ifndef NO_ORACLE
    // universally quantified competitors: for each number of segments and first axis, alternating H/V segments with
    // signed non-zero symbolic lengths; the implication "valid path => not cheaper" is one solver query per shape
    for (int nseg = 1; nseg <= KMAX + 1; nseg++) for (int firstH = 0; firstH < 2; firstH++) {
        double x = sx, y = sy, plen = 0; bool ok = true;
        for (int i = 0; i < nseg; i++) {
            double s = verif_coord(-400, 400);
            ok = ok & (s != 0);
            double nx = x, ny = y;
            bool horiz = ((i & 1) == 0) == (firstH != 0);
            if (horiz) nx = x + s; else ny = y + s;
            for (int k = 0; k < NR; k++) ok = ok & !hits_interior(
                    (VBox){bx[k].x0 - BUF, bx[k].y0 - BUF, bx[k].x1 + BUF, bx[k].y1 + BUF}, x, y, nx, ny);
            if (i == 0 && SRCDIR != ConnDirAll) {
                bool pos = s > 0;
                bool allowed = horiz ? ((pos & ((SRCDIR & ConnDirRight) != 0)) | (!pos & ((SRCDIR & ConnDirLeft) != 0)))
                                     : ((pos & ((SRCDIR & ConnDirDown) != 0)) | (!pos & ((SRCDIR & ConnDirUp) != 0)));
                ok = ok & allowed;
            }
            if (i == nseg - 1 && DSTDIR != ConnDirAll) {
                // arriving heading right (+x) means the route enters the destination from its left side
                bool pos = s > 0;
                bool allowed = horiz ? ((pos & ((DSTDIR & ConnDirLeft) != 0)) | (!pos & ((DSTDIR & ConnDirRight) != 0)))
                                     : ((pos & ((DSTDIR & ConnDirUp) != 0)) | (!pos & ((DSTDIR & ConnDirDown) != 0)));
                ok = ok & allowed;
            }
            plen = plen + dabs(s); x = nx; y = ny;
        }
        ok = ok & (x == dx) & (y == dy);
        CHECK(!ok | (cost <= plen + (double)PEN * (nseg - 1) + 0x1p-20), "C05 no orthogonal obstacle-avoiding path is cheaper than the route found");
    }
#endif
    WITNESS_POINT();
    delete router;
}
