#include "../h/verif.h"
#include "libavoid/geomtypes.h"
namespace Avoid { int bends(const Point& curr, unsigned int currDir, const Point& dest, unsigned int destDir); }
using namespace Avoid;
// N=1,E=2,S=4,W=8 ; y grows downwards (S = +y)
static inline unsigned pick_dir(void) { int k = verif_int_in(0, 3); return k == 0 ? 1u : k == 1 ? 2u : k == 2 ? 4u : 8u; }
static inline unsigned right_of(unsigned d) { return d == 1 ? 2u : d == 2 ? 4u : d == 4 ? 8u : 1u; }
static inline unsigned left_of(unsigned d) { return d == 1 ? 8u : d == 2 ? 1u : d == 4 ? 2u : 4u; }
extern "C" void harness(void) {
    int cx = verif_int_in(-8, 8), cy = verif_int_in(-8, 8);
    unsigned currDir = pick_dir();
    int K = verif_int_in(0, 4);
    int x = cx, y = cy; unsigned d = currDir;
    for (int i = 0; i <= 4; i++) {
        if (i > K) break;
        int len = verif_int_in(i == 0 ? 0 : 1, 6);
        if (d == 1) y -= len; else if (d == 4) y += len; else if (d == 2) x += len; else x -= len;
        if (i < K) { d = verif_int_in(0, 1) ? right_of(d) : left_of(d); }
    }
    ASSUME(!(x == cx && y == cy));
    Point curr(cx, cy), dest(x, y);
    int b = bends(curr, currDir, dest, d);
    verif_out_int(b);
    CHECK(b >= 0 && b <= 4, "bends in range");
    CHECK(b <= K, "C05 bends() never exceeds the bends of an actual orthogonal path");
}
