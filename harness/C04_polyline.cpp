// C04: polyline routing returns Euclidean shortest paths.  Real Avoid::Router(PolyLineRouting), one rectangle, source on a
// vertical line with symbolic integer y, destination concrete, all penalties zero.  The route must be obstacle-avoiding and
// no path through at most two of the rectangle's corners (every ordered choice; each candidate's validity decided exactly)
// may be shorter.  Lengths are sums of sqrt of symbolic values: each sqrt is a fresh real with a defining constraint.
#include "verif.h"
#include <cmath>
#include "libavoid/libavoid.h"
using namespace Avoid;
#ifndef SYLO
#define SYLO 0
#endif
#ifndef SYHI
#define SYHI 80
#endif
static bool seg_hits_rect(double px, double py, double qx, double qy, double x0, double y0, double x1, double y1) {
    double dx = qx - px, dy = qy - py;
    bool boxes = ((px < x1) | (qx < x1)) & ((px > x0) | (qx > x0)) & ((py < y1) | (qy < y1)) & ((py > y0) | (qy > y0));
    double c1 = dx * (y0 - py) - dy * (x0 - px), c2 = dx * (y0 - py) - dy * (x1 - px), c3 = dx * (y1 - py) - dy * (x0 - px), c4 = dx * (y1 - py) - dy * (x1 - px);
    bool allpos = (c1 >= 0) & (c2 >= 0) & (c3 >= 0) & (c4 >= 0), allneg = (c1 <= 0) & (c2 <= 0) & (c3 <= 0) & (c4 <= 0);
    return boxes & !allpos & !allneg;
}
static double dist(double ax, double ay, double bx, double by) { return std::sqrt((ax - bx) * (ax - bx) + (ay - by) * (ay - by)); }
extern "C" void harness(void) {
    Router *router = new Router(PolyLineRouting);
#ifndef LEES
    router->setRoutingParameter(segmentPenalty, 0); router->setRoutingParameter(anglePenalty, 0);
    router->UseLeesAlgorithm = false;       // naive visibility (checkVis with segmentShapeIntersect); the rotational sweep is outside the executor model
#endif
    const double X0 = 20, Y0 = 20, X1 = 60, Y1 = 60;
    Rectangle rect(Point(X0, Y0), Point(X1, Y1));
    new ShapeRef(router, rect);
    double sx = 0, sy = verif_coord(SYLO, SYHI), dx = 80, dy = 40;
    ConnRef *conn = new ConnRef(router, ConnEnd(Point(sx, sy)), ConnEnd(Point(dx, dy)));
    router->processTransaction();
    const PolyLine &r = conn->displayRoute();
    verif_out_int((int)r.size());
    for (size_t i = 0; i < r.size(); i++) { verif_out_double(r.ps[i].x); verif_out_double(r.ps[i].y); }
    CHECK(r.size() >= 2, "C04 route has at least two points");
    if (r.size() >= 2) {
        CHECK((r.ps[0].x == sx) & (r.ps[0].y == sy) & (r.ps[r.size() - 1].x == dx) & (r.ps[r.size() - 1].y == dy), "C04 route joins the endpoints");
        double len = 0;
        for (size_t i = 1; i < r.size(); i++) {
            CHECK(!seg_hits_rect(r.ps[i - 1].x, r.ps[i - 1].y, r.ps[i].x, r.ps[i].y, X0, Y0, X1, Y1), "C04 no segment passes through the obstacle");
            len = len + dist(r.ps[i - 1].x, r.ps[i - 1].y, r.ps[i].x, r.ps[i].y);
        }
        verif_band_nofork(1);
        const double CX[4] = {X0, X1, X1, X0}, CY[4] = {Y0, Y0, Y1, Y1};
        // direct
        if (!seg_hits_rect(sx, sy, dx, dy, X0, Y0, X1, Y1)) CHECK(len <= dist(sx, sy, dx, dy) + 1e-6, "C04 the route is no longer than any obstacle-avoiding path through at most two corners");
        for (int a = 0; a < 4; a++) {
            bool va = !seg_hits_rect(sx, sy, CX[a], CY[a], X0, Y0, X1, Y1);
            bool vad = !seg_hits_rect(CX[a], CY[a], dx, dy, X0, Y0, X1, Y1);
            double la = dist(sx, sy, CX[a], CY[a]);
            CHECK(!(va & vad) | (len <= la + dist(CX[a], CY[a], dx, dy) + 1e-6), "C04 the route is no longer than any obstacle-avoiding path through at most two corners");
            for (int b = 0; b < 4; b++) {
                if (b == a) continue;
                bool vab = !seg_hits_rect(CX[a], CY[a], CX[b], CY[b], X0, Y0, X1, Y1);     // concrete
                if (!vab) continue;
                bool vbd = !seg_hits_rect(CX[b], CY[b], dx, dy, X0, Y0, X1, Y1);             // concrete
                if (!vbd) continue;
                CHECK(!va | (len <= la + dist(CX[a], CY[a], CX[b], CY[b]) + dist(CX[b], CY[b], dx, dy) + 1e-6), "C04 the route is no longer than any obstacle-avoiding path through at most two corners");
            }
        }
        verif_band_nofork(0);
    }
    WITNESS_POINT();
    delete router;
}
