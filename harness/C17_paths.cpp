// C17: real shortest_paths::dijkstra / johnsons / floyd_warshall<double> (+ PairingHeap) against a Bellman-Ford
// oracle written in the harness; every multigraph on NN nodes with NE edge slots (endpoints are forked choices incl.
// self-loops and parallel edges), symbolic edge weights.
//   -DNN=n -DNE=m   -DWLO/-DWHI integer weight range (exact sums)    -DFRAC: weights are k/4 (fractional, exact dyadic)
//   -DLAYOUT: additionally build a ConstrainedFDLayout (constructor only) and check readLinearD()/readLinearG()
//   -DNOFW: skip floyd_warshall (used to keep checking johnsons/dijkstra where floyd_warshall has a known finding)
#include "verif.h"
#include <vector>
#include <valarray>
#include <cfloat>
#include "libcola/shortest_paths.h"
#ifdef LAYOUT
#include "libcola/cola.h"
#endif
#ifndef NN
#define NN 3
#endif
#ifndef NE
#define NE 3
#endif
#ifndef WLO
#define WLO 0
#endif
#ifndef WHI
#define WHI 8
#endif
#ifndef IDEAL
#define IDEAL 3
#endif
static inline double dmin(double a, double b) { return a < b ? a : b; }

extern "C" void harness(void) {
    std::vector<shortest_paths::Edge> es;
    std::valarray<double> w(NE);
    unsigned eu[NE], ev[NE];
    for (int e = 0; e < NE; e++) {
        eu[e] = (unsigned)verif_choice(NN); ev[e] = (unsigned)verif_choice(NN);
#ifdef NOSELF
        ASSUME(eu[e] != ev[e]);
#endif
        es.push_back(shortest_paths::Edge(eu[e], ev[e]));
#ifdef FRAC
        w[e] = verif_dyadic(WLO, WHI, 2);
#else
        w[e] = verif_coord(WLO, WHI);
#endif
    }
    // ---- oracle: reachability is concrete on every path; distances by Bellman-Ford with branch-free min
    bool reach[NN][NN]; double od[NN][NN];
    for (int i = 0; i < NN; i++) for (int j = 0; j < NN; j++) { reach[i][j] = (i == j); od[i][j] = 0; }
    for (int round = 0; round < NN; round++)
        for (int s = 0; s < NN; s++)
            for (int e = 0; e < NE; e++)
                for (int dir = 0; dir < 2; dir++) {
                    unsigned a = dir ? ev[e] : eu[e], b = dir ? eu[e] : ev[e];
                    if (!reach[s][a]) continue;
                    double cand = od[s][a] + w[e];
                    if (!reach[s][b]) { reach[s][b] = true; od[s][b] = cand; }
                    else od[s][b] = dmin(od[s][b], cand);
                }
#ifndef LAYOUT_ONLY      // (negative lengths are outside Dijkstra's domain; the layout corrects them first)
    // ---- the three real implementations
    double *Dj[NN], *Df[NN], dd[NN][NN];
    for (int i = 0; i < NN; i++) { Dj[i] = new double[NN]; Df[i] = new double[NN]; }
    shortest_paths::johnsons(NN, Dj, es, w);
#ifndef NOFW
    shortest_paths::floyd_warshall(NN, Df, es, w);
#endif
    for (int s = 0; s < NN; s++) shortest_paths::dijkstra((unsigned)s, NN, dd[s], es, w);
    for (int i = 0; i < NN; i++) for (int j = 0; j < NN; j++) {
        verif_out_double(Dj[i][j]);
        if (reach[i][j]) {
            CHECK(Dj[i][j] == od[i][j], "C17 johnsons equals the Bellman-Ford oracle");
            CHECK(dd[i][j] == od[i][j], "C17 dijkstra equals the Bellman-Ford oracle");
#ifndef NOFW
            CHECK(Df[i][j] == od[i][j], "C17 floyd_warshall equals the Bellman-Ford oracle");
#endif
        } else {
            CHECK(Dj[i][j] == DBL_MAX, "C17 johnsons reports the unreachable sentinel exactly");
            CHECK(dd[i][j] == DBL_MAX, "C17 dijkstra reports the unreachable sentinel exactly");
#ifndef NOFW
            CHECK(Df[i][j] == DBL_MAX, "C17 floyd_warshall reports the unreachable sentinel exactly");
#endif
        }
        CHECK(Dj[i][j] == Dj[j][i], "C17 johnsons matrix is symmetric");
#ifndef NOFW
        CHECK(Df[i][j] == Df[j][i], "C17 floyd_warshall matrix is symmetric");
#endif
        if (i == j) {
            CHECK(Dj[i][i] == 0, "C17 johnsons diagonal is zero");
#ifndef NOFW
            CHECK(Df[i][i] == 0, "C17 floyd_warshall diagonal is zero");
#endif
        }
    }
#endif
#ifdef LAYOUT
    {
        // the ideal-distance matrix of a force-directed layout: idealLength * path length, non-positive lengths -> 1
        vpsc::Rectangles rs;
        for (int i = 0; i < NN; i++) rs.push_back(new vpsc::Rectangle(i * 20, i * 20 + 10, 0, 10));
        std::vector<cola::Edge> ces; cola::EdgeLengths el;
        for (int e = 0; e < NE; e++) { ces.push_back(cola::Edge(eu[e], ev[e])); el.push_back(w[e]); }
        cola::ConstrainedFDLayout *fd = new cola::ConstrainedFDLayout(rs, ces, IDEAL, el);
        std::vector<double> LD = fd->readLinearD();
        std::vector<unsigned> LG = fd->readLinearG();
        // oracle with corrected lengths
        bool r2[NN][NN]; double o2[NN][NN];
        for (int i = 0; i < NN; i++) for (int j = 0; j < NN; j++) { r2[i][j] = (i == j); o2[i][j] = 0; }
        for (int round = 0; round < NN; round++) for (int s = 0; s < NN; s++) for (int e = 0; e < NE; e++) for (int dir = 0; dir < 2; dir++) {
            unsigned a = dir ? ev[e] : eu[e], b = dir ? eu[e] : ev[e];
            if (!r2[s][a]) continue;
            double we = w[e] <= 0 ? 1.0 : w[e];
            double cand = o2[s][a] + we;
            if (!r2[s][b]) { r2[s][b] = true; o2[s][b] = cand; } else o2[s][b] = dmin(o2[s][b], cand);
        }
        for (int i = 0; i < NN; i++) for (int j = 0; j < NN; j++) {
            if (i == j) continue;
            verif_out_double(LD[NN * i + j]);
            if (r2[i][j]) CHECK(LD[NN * i + j] == IDEAL * o2[i][j], "C17 layout ideal distance equals idealLength times the path length");
            else CHECK(LD[NN * i + j] == DBL_MAX && LG[NN * i + j] == 0, "C17 layout marks pairs in different components");
            bool adj = false;
            for (int e = 0; e < NE; e++) adj = adj | ((eu[e] == (unsigned)i && ev[e] == (unsigned)j) || (eu[e] == (unsigned)j && ev[e] == (unsigned)i));
            if (adj) CHECK(LG[NN * i + j] == 1, "C17 layout marks adjacent pairs");
        }
        delete fd;
        for (int i = 0; i < NN; i++) delete rs[i];
    }
#endif
#ifndef LAYOUT_ONLY
    for (int i = 0; i < NN; i++) { delete[] Dj[i]; delete[] Df[i]; }
#endif
    WITNESS_POINT();
}
