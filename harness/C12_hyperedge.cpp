// C12: hyperedges stay spanning trees over the same terminals.  Real orthogonal Router: three small shapes, each with
// a pin of class 1; one junction at a SYMBOLIC free position; three connectors junction -> pin.  processTransaction()
// runs hyperedge improvement (which may move, add or delete junctions and connectors).  Afterwards the harness walks the
// router's live connectors: they form one tree (|E| = |V|-1, connected) whose leaves are exactly the three pin
// attachments, every connector has both ends attached, each route starts/ends at the positions of the objects it is
// attached to, and the new/deleted lists are consistent with the live objects.
//   -DIMPROVE=0/1 improveHyperedgeRoutesMovingJunctions   -DADDREMOVE: improveHyperedgeRoutesMovingAddingAndDeletingJunctions
//   -DREROUTE: register the hyperedge with the HyperedgeRerouter (by junction) for full rerouting
//   -DMOVE: afterwards move one shape by a symbolic offset and process another transaction
#include "route_common.h"
#include "libavoid/connectionpin.h"
#include "libavoid/junction.h"
#include "libavoid/hyperedge.h"
#include <vector>
using namespace Avoid;
#ifndef IMPROVE
#define IMPROVE 1
#endif
#ifndef SCENE
#define SCENE 1
#endif
#ifdef REROUTE_TERMS
#define M(x) x " [hyperedge registered by terminal list]"
#else
#define M(x) x
#endif
struct Node { int kind; void *obj; };      // kind 0: junction, 1: shape terminal
static int find_node(std::vector<Node> &ns, int kind, void *obj) {
    for (size_t i = 0; i < ns.size(); i++) if (ns[i].kind == kind && ns[i].obj == obj) return (int)i;
    Node n = {kind, obj}; ns.push_back(n); return (int)ns.size() - 1;
}
static void check_tree(Router *router, ShapeRef **shapes, ShapeConnectionPin **pins) {
    std::vector<Node> ns; std::vector<std::pair<int, int> > es;
    for (ConnRefList::const_iterator it = router->connRefs.begin(); it != router->connRefs.end(); ++it) {
        ConnRef *c = *it;
        std::pair<ConnEnd, ConnEnd> ends = c->endpointConnEnds();
        int ix[2];
        const ConnEnd *e[2] = {&ends.first, &ends.second};
        const PolyLine &r = c->displayRoute();
        CHECK(r.size() >= 2, M("C12 every connector of the hyperedge has a route"));
        for (int k = 0; k < 2; k++) {
            ConnEndType t = e[k]->type();
            CHECK(t == ConnEndJunction || t == ConnEndShapePin, M("C12 every connector still has both ends attached"));
            if (t == ConnEndJunction) ix[k] = find_node(ns, 0, e[k]->junction());
            else ix[k] = find_node(ns, 1, e[k]->shape());
            if (r.size() >= 2) {
                Point p = k == 0 ? r.ps[0] : r.ps[r.size() - 1];
                if (t == ConnEndJunction) {
                    Point jp = e[k]->junction()->recommendedPosition();   // hyperedge improvement may recommend a new junction position; routes end there
                    CHECK((p.x == jp.x) & (p.y == jp.y), M("C12 a route end attached to a junction lies at the junction's position"));
                } else {
                    bool onpin = false;
                    for (int s = 0; s < 3; s++) if (shapes[s] == e[k]->shape()) { Point pp = pins[s]->position(); onpin = (p.x == pp.x) & (p.y == pp.y); }
                    CHECK(onpin, M("C12 a route end attached to a shape pin lies at the pin's position"));
                }
            }
        }
        es.push_back(std::make_pair(ix[0], ix[1]));
    }
    verif_out_int((int)ns.size()); verif_out_int((int)es.size());
    CHECK(es.size() + 1 == ns.size(), M("C12 connectors and junctions form a tree (|E| = |V| - 1)"));
    // connected
    std::vector<int> lab(ns.size()); for (size_t i = 0; i < ns.size(); i++) lab[i] = (int)i;
    for (size_t round = 0; round < ns.size(); round++) for (size_t j = 0; j < es.size(); j++) {
        int a = lab[es[j].first], b = lab[es[j].second]; int m = a < b ? a : b; lab[es[j].first] = m; lab[es[j].second] = m; }
    bool conn = true; for (size_t i = 0; i < ns.size(); i++) conn = conn && lab[i] == 0;
    CHECK(conn, M("C12 the hyperedge is connected"));
    // leaves are exactly the three shape terminals
    int nterm = 0;
    for (size_t i = 0; i < ns.size(); i++) {
        int deg = 0; for (size_t j = 0; j < es.size(); j++) deg += (es[j].first == (int)i) + (es[j].second == (int)i);
        if (ns[i].kind == 1) { nterm++; CHECK(deg == 1, M("C12 every terminal is a leaf")); }
        else CHECK(deg >= 2, M("C12 no junction is left dangling"));
    }
    CHECK(nterm == 3, M("C12 no terminal is dropped"));
    for (int s = 0; s < 3; s++) { bool found = false; for (size_t i = 0; i < ns.size(); i++) found = found || (ns[i].kind == 1 && ns[i].obj == shapes[s]); CHECK(found, M("C12 no terminal is dropped")); }
    // new / deleted lists vs live objects
    HyperedgeNewAndDeletedObjectLists L = router->newAndDeletedObjectListsFromHyperedgeImprovement();
    for (ConnRefList::iterator it = L.newConnectorList.begin(); it != L.newConnectorList.end(); ++it) {
        bool live = false; for (ConnRefList::const_iterator c = router->connRefs.begin(); c != router->connRefs.end(); ++c) live = live || *c == *it;
        CHECK(live, M("C12 connectors reported as new are live objects of the router"));
    }
    for (ConnRefList::iterator it = L.deletedConnectorList.begin(); it != L.deletedConnectorList.end(); ++it) {
        bool live = false; for (ConnRefList::const_iterator c = router->connRefs.begin(); c != router->connRefs.end(); ++c) live = live || *c == *it;
        CHECK(!live, M("C12 connectors reported as deleted are no longer live"));
    }
}
extern "C" void harness(void) {
    Router *router = new Router(OrthogonalRouting);
    router->setRoutingParameter(segmentPenalty, 50);
    router->setRoutingOption(improveHyperedgeRoutesMovingJunctions, IMPROVE != 0);
#ifdef ADDREMOVE
    router->setRoutingOption(improveHyperedgeRoutesMovingAddingAndDeletingJunctions, true);
#endif
#if SCENE == 2
    // three 10x10 shapes in a staircase, shapeBufferDistance 4; pins: left side, top, right side (two collinear shift segments
    // of the hyperedge merge during nudging in this layout)
    router->setRoutingParameter(shapeBufferDistance, 4);
    static const double CXs[3] = {100, 60, 40}, CYs[3] = {-20, 60, 100};
    ShapeRef *shapes[3]; ShapeConnectionPin *pins[3];
    for (int i = 0; i < 3; i++) {
        Rectangle r(Point(CXs[i] - 5, CYs[i] - 5), Point(CXs[i] + 5, CYs[i] + 5));
        shapes[i] = new ShapeRef(router, r);
        if (i == 0) pins[i] = new ShapeConnectionPin(shapes[i], 1, ATTACH_POS_LEFT, ATTACH_POS_CENTRE, true, 0.0, ConnDirLeft);
        else if (i == 1) pins[i] = new ShapeConnectionPin(shapes[i], 1, ATTACH_POS_CENTRE, ATTACH_POS_TOP, true, 0.0, ConnDirUp);
        else pins[i] = new ShapeConnectionPin(shapes[i], 1, ATTACH_POS_RIGHT, ATTACH_POS_CENTRE, true, 0.0, ConnDirRight);
        pins[i]->setExclusive(true);
    }
#else
    // three 20x20 shapes: left, right-top, right-bottom; pins face the middle
    static const double SX[3] = {0, 120, 120}, SY[3] = {40, 0, 80};
    ShapeRef *shapes[3]; ShapeConnectionPin *pins[3];
    for (int i = 0; i < 3; i++) {
        Rectangle r(Point(SX[i], SY[i]), Point(SX[i] + 20, SY[i] + 20));
        shapes[i] = new ShapeRef(router, r);
        pins[i] = new ShapeConnectionPin(shapes[i], 1, i == 0 ? ATTACH_POS_RIGHT : ATTACH_POS_LEFT, ATTACH_POS_CENTRE, true, 0.0, i == 0 ? ConnDirRight : ConnDirLeft);
        pins[i]->setExclusive(true);
    }
#endif
#ifdef REROUTE_TERMS
    // register the hyperedge by its list of terminals only (no initial junction or connectors): the rerouter creates them
    double shx = verif_coord(-10, 10);
    { double mv = shx; router->moveShape(shapes[1], mv, 0); }
    ConnEndList terms;
    for (int i = 0; i < 3; i++) terms.push_back(ConnEnd(shapes[i], 1));
    router->hyperedgeRerouter()->registerHyperedgeForRerouting(terms);
    router->processTransaction();
    check_tree(router, shapes, pins);
    WITNESS_POINT();
    delete router;
    return;
#endif
#if SCENE == 2
    double jx = verif_coord(34, 46);
#else
    double jx = verif_coord(40, 100);
#endif
#ifdef JYFIX
    double jy = JYFIX;
#else
    double jy = verif_coord(20, 80);
#endif
    JunctionRef *J = new JunctionRef(router, Point(jx, jy));
    J->setPositionFixed(false);
    for (int i = 0; i < 3; i++) new ConnRef(router, ConnEnd(J), ConnEnd(shapes[i], 1));
#ifdef REROUTE
    router->hyperedgeRerouter()->registerHyperedgeForRerouting(J);
#endif
    router->processTransaction();
    check_tree(router, shapes, pins);
#ifdef MOVE
    { double mx = verif_coord(-10, 10); double my = verif_coord(-10, 10); router->moveShape(shapes[1], mx, my); }
    router->processTransaction();
    check_tree(router, shapes, pins);
#endif
    WITNESS_POINT();
    delete router;
}
