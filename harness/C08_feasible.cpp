// C07 / C08: the real cola::ConstrainedFDLayout::makeFeasible() on NR rectangles with symbolic integer centres
// (heavily overlapping placements included), optional user constraints and one rectangular cluster.
// makeFeasible is piecewise-linear (incremental VPSC, sorted alternatives), so it is executed symbolically end to end.
//   -DNR=n   -DOVERLAP  avoid node overlaps   -DSEP  add SeparationConstraint(x, 0, 1, gap symbolic)
//   -DALIGN  add y-AlignmentConstraint on nodes 0,1    -DCLUSTER  nodes 0,1 in a RectangularCluster, the others outside
//   -DEXEMPT nodes 0 and NR-1 are declared exempt from non-overlap (a group with non-adjacent indices when NR=3)
//   -DSEPEQ the x separation is an equality   -DSEPY adds an equality y-separation between nodes 0 and 1
#include "verif.h"
#include "libvpsc/rectangle.h"
#include "libcola/cola.h"
#include "libcola/compound_constraints.h"
#include "libcola/cluster.h"
using namespace cola;
#ifndef NR
#define NR 2
#endif
#ifndef PB
#define PB 8
#endif
extern "C" void harness(void) {
    vpsc::Rectangles rs; double W[NR], H[NR];
    for (int i = 0; i < NR; i++) {
#ifdef SYMONLY
        // only rectangle SYMONLY has a symbolic position; the others sit at fixed overlapping places
        double x = 3 * i, y = 2 * i;
        if (i == SYMONLY) { x = verif_coord(0, PB); y = verif_coord(0, PB); }
#else
        double x = verif_coord(0, PB), y = verif_coord(0, PB);
#endif
        W[i] = 10 + 4 * i; H[i] = 6 + 2 * i;
        rs.push_back(new vpsc::Rectangle(x - W[i] / 2, x + W[i] / 2, y - H[i] / 2, y + H[i] / 2));
    }
    std::vector<Edge> es;
    for (int i = 1; i < NR; i++) es.push_back(Edge(i - 1, i));
    ConstrainedFDLayout *alg = new ConstrainedFDLayout(rs, es, 30);
    CompoundConstraints ccs;
#ifdef SEP
    double gap = verif_coord(0, 30);
#ifdef SEPEQ
    ccs.push_back(new SeparationConstraint(vpsc::XDIM, 0, 1, gap, true));
#else
    ccs.push_back(new SeparationConstraint(vpsc::XDIM, 0, 1, gap, false));
#endif
#endif
#ifdef SEPY
    double gapy = verif_coord(0, 12);
    ccs.push_back(new SeparationConstraint(vpsc::YDIM, 0, 1, gapy, true));
#endif
#ifdef ALIGN
    { AlignmentConstraint *al = new AlignmentConstraint(vpsc::YDIM); al->addShape(0, 0); al->addShape(1, 0); ccs.push_back(al); }
#endif
    alg->setConstraints(ccs);
#ifdef OVERLAP
#ifdef EXEMPT
    { std::vector<std::vector<unsigned> > groups(1); groups[0].push_back(0); groups[0].push_back(NR - 1); alg->setAvoidNodeOverlaps(true, groups); }
#else
    alg->setAvoidNodeOverlaps(true);
#endif
#endif
#ifdef CLUSTER
    RootCluster *root = new RootCluster();
    RectangularCluster *cl = new RectangularCluster();
    cl->addChildNode(0); cl->addChildNode(1);
    root->addChildCluster(cl);
    for (int i = 2; i < NR; i++) root->addChildNode(i);
    alg->setClusterHierarchy(root);
#endif
    UnsatisfiableConstraintInfos ux, uy;
    alg->setUnsatisfiableConstraintInfo(&ux, &uy);
    alg->makeFeasible();
    verif_out_int((int)ux.size()); verif_out_int((int)uy.size());
    double X[NR], Y[NR];
    for (int i = 0; i < NR; i++) { X[i] = rs[i]->getCentreX(); Y[i] = rs[i]->getCentreY(); verif_out_double(X[i]); verif_out_double(Y[i]); }
    bool reported = (ux.size() + uy.size()) > 0;
    for (int i = 0; i < NR; i++) {
        double dw = rs[i]->width() - W[i], dh = rs[i]->height() - H[i];
        CHECK((dw <= 1e-9) & (dw >= -1e-9) & (dh <= 1e-9) & (dh >= -1e-9), "C07 makeFeasible never changes a rectangle's size");
    }
#ifdef SEP
#ifdef SEPEQ
    if (!reported) { double d = X[0] + gap - X[1]; CHECK((d <= 1e-4) & (d >= -1e-4), "C07 equality separation holds after makeFeasible unless reported unsatisfiable"); }
#else
    if (!reported) CHECK(X[0] + gap <= X[1] + 1e-4, "C07 separation holds after makeFeasible unless reported unsatisfiable");
#endif
#endif
#ifdef SEPY
    // user constraints outrank non-overlap: they must hold even when the pair cannot be separated (that is then reported
    // for the non-overlap constraint only)
    { double d = Y[0] + gapy - Y[1]; bool userReported = false;
      for (size_t i = 0; i < uy.size(); i++) userReported = userReported || uy[i]->cc == ccs.back();
      if (!userReported) CHECK((d <= 1e-4) & (d >= -1e-4), "C07 y equality separation holds after makeFeasible unless it is itself reported unsatisfiable"); }
#endif
#ifdef ALIGN
    if (!reported) { double d = Y[0] - Y[1]; CHECK((d <= 1e-4) & (d >= -1e-4), "C07 alignment holds after makeFeasible unless reported unsatisfiable"); }
#endif
#ifdef OVERLAP
    if (!reported) for (int i = 0; i < NR; i++) for (int j = i + 1; j < NR; j++) {
#ifdef EXEMPT
        if (i == 0 && j == NR - 1) continue;
#endif
#if defined(SEPEQ) && defined(SEPY)
        // the property speaks about user constraints that admit a non-overlapping layout: nodes 0 and 1 are pinned relative
        // to each other, so they can only be apart if one of the pinned gaps already separates them
        if (i == 0 && j == 1 && !((gap >= (W[0] + W[1]) / 2) | (gapy >= (H[0] + H[1]) / 2))) continue;
#endif
        double ox = (W[i] + W[j]) / 2 - (X[i] > X[j] ? X[i] - X[j] : X[j] - X[i]);
        double oy = (H[i] + H[j]) / 2 - (Y[i] > Y[j] ? Y[i] - Y[j] : Y[j] - Y[i]);
        CHECK(!((ox > 1e-3) & (oy > 1e-3)), "C08 no two non-exempt rectangles overlap after makeFeasible");
    }
#endif
#ifdef CLUSTER
    if (!reported && NR > 2) {
        // the outsider lies outside the bounding box of the cluster's members
        double lx = X[0] - W[0] / 2, hx = X[0] + W[0] / 2, ly = Y[0] - H[0] / 2, hy = Y[0] + H[0] / 2;
        double lx1 = X[1] - W[1] / 2, hx1 = X[1] + W[1] / 2, ly1 = Y[1] - H[1] / 2, hy1 = Y[1] + H[1] / 2;
        lx = lx < lx1 ? lx : lx1; hx = hx > hx1 ? hx : hx1; ly = ly < ly1 ? ly : ly1; hy = hy > hy1 ? hy : hy1;
        for (int k = 2; k < NR; k++) {
            double ox1 = hx - (X[k] - W[k] / 2), ox2 = (X[k] + W[k] / 2) - lx, oy1 = hy - (Y[k] - H[k] / 2), oy2 = (Y[k] + H[k] / 2) - ly;
            CHECK(!((ox1 > 1e-3) & (ox2 > 1e-3) & (oy1 > 1e-3) & (oy2 > 1e-3)), "C08 a node outside a cluster does not lie inside the cluster's member bounding box");
        }
    }
#endif
    delete alg;
#ifdef CLUSTER
    delete root;
#endif
    for (size_t i = 0; i < ccs.size(); i++) delete ccs[i];
    for (size_t i = 0; i < ux.size(); i++) delete ux[i];
    for (size_t i = 0; i < uy.size(); i++) delete uy[i];
    for (int i = 0; i < NR; i++) delete rs[i];
    WITNESS_POINT();
}
