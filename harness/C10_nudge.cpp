// C10: nudging separates shared paths without moving endpoints.  Real orthogonal Router, a wall W that both connectors
// must pass under, so their cheapest routes share the vertical corridors beside the wall and the horizontal one below it.
// Endpoints are symbolic integer points; after processTransaction():
//   * two connectors without a common endpoint never have collinear segments overlapping along a positive length
//   * parallel segments that face each other (overlapping extents) are at least the nudging distance apart (free space below
//     the wall: the channel is wide enough) -- "at least a positive distance" for the reduced case
//   * first/last points of each displayed route equal the connector's endpoints; displayed routes have no more points than raw
//   -DNUDGE=distance (default 4)   -DOPT_SHAPES: nudgeOrthogonalSegmentsConnectedToShapes   -DOPT_SHARED: nudgeSharedPathsWithCommonEndPoint
#include "route_common.h"
using namespace Avoid;
#ifndef NUDGE
#define NUDGE 4
#endif
#ifndef PEN
#define PEN 50
#endif
#ifndef SCENE
#define SCENE 1
#endif
struct Seg { double x0, y0, x1, y1; };
// positive-length overlap of two collinear axis-parallel segments (branch-free)
static bool collinear_overlap(const Seg &a, const Seg &b) {
    bool ah = a.y0 == a.y1, bh = b.y0 == b.y1, av = a.x0 == a.x1, bv = b.x0 == b.x1;
    double alo = a.x0 < a.x1 ? a.x0 : a.x1, ahi = a.x0 < a.x1 ? a.x1 : a.x0, blo = b.x0 < b.x1 ? b.x0 : b.x1, bhi = b.x0 < b.x1 ? b.x1 : b.x0;
    bool hov = ah & bh & (a.y0 == b.y0) & (alo < bhi) & (blo < ahi) & (alo < ahi) & (blo < bhi);
    double cl = a.y0 < a.y1 ? a.y0 : a.y1, ch = a.y0 < a.y1 ? a.y1 : a.y0, dl = b.y0 < b.y1 ? b.y0 : b.y1, dh = b.y0 < b.y1 ? b.y1 : b.y0;
    bool vov = av & bv & (a.x0 == b.x0) & (cl < dh) & (dl < ch) & (cl < ch) & (dl < dh);
    return hov | vov;
}
// parallel, facing each other over a positive extent, and closer than dist (but not collinear)
static bool too_close(const Seg &a, const Seg &b, double dist) {
    bool ah = (a.y0 == a.y1) & (a.x0 != a.x1), bh = (b.y0 == b.y1) & (b.x0 != b.x1), av = (a.x0 == a.x1) & (a.y0 != a.y1), bv = (b.x0 == b.x1) & (b.y0 != b.y1);
    double alo = a.x0 < a.x1 ? a.x0 : a.x1, ahi = a.x0 < a.x1 ? a.x1 : a.x0, blo = b.x0 < b.x1 ? b.x0 : b.x1, bhi = b.x0 < b.x1 ? b.x1 : b.x0;
    double dy = a.y0 - b.y0; dy = dy < 0 ? -dy : dy;
    bool hc = ah & bh & (alo < bhi) & (blo < ahi) & (dy > 0) & (dy < dist);
    double cl = a.y0 < a.y1 ? a.y0 : a.y1, ch = a.y0 < a.y1 ? a.y1 : a.y0, dl = b.y0 < b.y1 ? b.y0 : b.y1, dh = b.y0 < b.y1 ? b.y1 : b.y0;
    double dx = a.x0 - b.x0; dx = dx < 0 ? -dx : dx;
    bool vc = av & bv & (cl < dh) & (dl < ch) & (dx > 0) & (dx < dist);
    return hc | vc;
}
extern "C" void harness(void) {
    Router *router = new Router(OrthogonalRouting);
    router->setRoutingParameter(segmentPenalty, PEN);
    router->setRoutingParameter(idealNudgingDistance, NUDGE);
#ifdef OPT_SHAPES
    router->setRoutingOption(nudgeOrthogonalSegmentsConnectedToShapes, true);
#endif
#ifdef OPT_SHARED
    router->setRoutingOption(nudgeSharedPathsWithCommonEndPoint, false);
#endif
#if SCENE == 2
    // a connector running along the bottom edge of a rectangle and a second one that has to go around the same rectangle:
    // their segments meet in a nudging tie (allowed ranges touching in a single value)
    Rectangle wall(Point(10, 10), Point(30, 30));
    new ShapeRef(router, wall);
    VBox wb = {10, 10, 30, 30};
#ifdef AYFIX
    double ay = AYFIX;
#else
    double ay = verif_coord(30, 33);
#endif
    double by = verif_coord(20, 28);
    double ex[4] = {-10, 50, 0, 40}, ey[4] = {ay, ay, by, by};
#else
    double wx = verif_coord(0, 6);
    Rectangle wall(Point(40 + wx, -200), Point(60 + wx, 40));
    new ShapeRef(router, wall);
    VBox wb = {40 + wx, -200, 60 + wx, 40};
    double s1y = verif_coord(0, 8), s2y = verif_coord(12, 20), d1y = verif_coord(0, 8), d2y = verif_coord(12, 20);
    double ex[4] = {0, 100, 6, 94}, ey[4] = {s1y, d1y, s2y, d2y};
#endif
    ConnRef *c[2];
    c[0] = new ConnRef(router, ConnEnd(Point(ex[0], ey[0])), ConnEnd(Point(ex[1], ey[1])));
    c[1] = new ConnRef(router, ConnEnd(Point(ex[2], ey[2])), ConnEnd(Point(ex[3], ey[3])));
    router->processTransaction();
    verif_band_nofork(1);       // the oracle below is branch-free: inexact comparisons stay may/must pairs
    for (int k = 0; k < 2; k++) {
        const PolyLine &r = c[k]->displayRoute(), &raw = c[k]->route();
        verif_out_int((int)r.size());
        for (size_t i = 0; i < r.size(); i++) { verif_out_double(r.ps[i].x); verif_out_double(r.ps[i].y); }
        CHECK(r.size() >= 2, "C10 route has at least two points");
        if (r.size() < 2) continue;
        CHECK((r.ps[0].x == ex[2 * k]) & (r.ps[0].y == ey[2 * k]) & (r.ps[r.size() - 1].x == ex[2 * k + 1]) & (r.ps[r.size() - 1].y == ey[2 * k + 1]),
              "C10 nudging never moves a connector's first or last point");
        CHECK(r.size() <= raw.size(), "C10 nudging never adds segments to a route");
        for (size_t i = 1; i < r.size(); i++) {
            CHECK((r.ps[i - 1].x == r.ps[i].x) | (r.ps[i - 1].y == r.ps[i].y), "C10 nudged routes stay orthogonal");
            CHECK(!hits_interior(wb, r.ps[i - 1].x, r.ps[i - 1].y, r.ps[i].x, r.ps[i].y), "C10 nudged routes stay out of shapes");
        }
    }
    const PolyLine &a = c[0]->displayRoute(), &b = c[1]->displayRoute();
    for (size_t i = 1; i < a.size(); i++) for (size_t j = 1; j < b.size(); j++) {
        Seg sa = {a.ps[i - 1].x, a.ps[i - 1].y, a.ps[i].x, a.ps[i].y}, sb = {b.ps[j - 1].x, b.ps[j - 1].y, b.ps[j].x, b.ps[j].y};
        CHECK(!collinear_overlap(sa, sb), "C10 connectors without a common endpoint never run collinear and overlapping");
        CHECK(!too_close(sa, sb, 0x1p-10), "C10 separated segments are a positive distance apart");
        // below / beside the wall there is room for the full nudging distance; final segments (attached to the endpoints) are exempt
        bool inner = (i > 1) & (i + 1 < a.size()) & (j > 1) & (j + 1 < b.size());
        if (inner) CHECK(!too_close(sa, sb, (double)NUDGE - 0x1p-10), "C10 separated inner segments are at least the nudging distance apart where the channel is wide enough");
    }
    verif_band_nofork(0);
    WITNESS_POINT();
    delete router;
}
