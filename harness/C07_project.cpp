// C07: libcola projection layer -- the real cola::projectOntoCCs (generateVariables / generateSeparationConstraints of each
// compound-constraint class + vpsc::IncSolver::solve + result copy) on NR rectangles with symbolic centre positions.
// After projection in x (and y where the class has a y part) every constraint's defining relation holds to 1e-4 on the
// output rectangles unless the projection reports an error level; sizes are unchanged.
//   -DCC=1 Separation (gap symbolic, both equality flags)   2 Alignment with offsets   3 Boundary   4 Distribution
//      5 MultiSeparation   6 FixedRelative   7 PageBoundary   8 Separation + Alignment (mix, may be unsatisfiable)
#include "verif.h"
#include "libvpsc/rectangle.h"
#include "libcola/cola.h"
#include "libcola/compound_constraints.h"
using namespace cola;
#ifndef NR
#define NR 3
#endif
#ifndef CC
#define CC 1
#endif
#ifndef PB
#define PB 20
#endif
static const double TOL = 1e-4;
static bool near(double a, double b) { double d = a - b; return (d <= TOL) & (d >= -TOL); }

extern "C" void harness(void) {
    vpsc::Rectangles rs; double W[NR], H[NR];
    for (int i = 0; i < NR; i++) {
        double x = verif_coord(-PB, PB), y = verif_coord(-PB, PB);
        W[i] = 10 + 2 * i; H[i] = 6 + 2 * i;
        rs.push_back(new vpsc::Rectangle(x - W[i] / 2, x + W[i] / 2, y - H[i] / 2, y + H[i] / 2));
    }
    CompoundConstraints ccs;
    int dimc = verif_choice(2);
    vpsc::Dim dim = dimc ? vpsc::YDIM : vpsc::XDIM;
#define POSD(i) (dimc ? rs[i]->getCentreY() : rs[i]->getCentreX())
#if CC == 1
    double gap = verif_coord(-10, 15); int eq = verif_choice(2);
    ccs.push_back(new SeparationConstraint(dim, 0, 1, gap, eq != 0));
    double gap2 = verif_coord(-10, 15);
    ccs.push_back(new SeparationConstraint(dim, 1, 2, gap2, false));
#elif CC == 2
    double o1 = verif_coord(-6, 6), o2 = verif_coord(-6, 6);
    AlignmentConstraint *al = new AlignmentConstraint(dim);
    al->addShape(0, 0); al->addShape(1, o1); al->addShape(2, o2);
    ccs.push_back(al);
#elif CC == 3
    double bo0 = verif_coord(1, 8), bo1 = verif_coord(0, 8);     // a left-of offset must be strictly negative (0 means right-of)
    BoundaryConstraint *bc = new BoundaryConstraint(dim);
    bc->addShape(0, -bo0);      // negative offset: shape lies on the low side of the boundary, at least bo0 away
    bc->addShape(1, bo1);       // positive offset: high side
    ccs.push_back(bc);
#elif CC == 4
    AlignmentConstraint *a0 = new AlignmentConstraint(dim), *a1 = new AlignmentConstraint(dim), *a2 = new AlignmentConstraint(dim);
    a0->addShape(0, 0); a1->addShape(1, 0); a2->addShape(2, 0);
    double sep = verif_coord(1, 20);
    DistributionConstraint *dc = new DistributionConstraint(dim);
    dc->setSeparation(sep);
    dc->addAlignmentPair(a0, a1); dc->addAlignmentPair(a1, a2);
    ccs.push_back(a0); ccs.push_back(a1); ccs.push_back(a2); ccs.push_back(dc);
#elif CC == 5
    AlignmentConstraint *a0 = new AlignmentConstraint(dim), *a1 = new AlignmentConstraint(dim), *a2 = new AlignmentConstraint(dim);
    a0->addShape(0, 0); a1->addShape(1, 0); a2->addShape(2, 0);
    double sep = verif_coord(0, 20); int eq = verif_choice(2);
    MultiSeparationConstraint *ms = new MultiSeparationConstraint(dim, sep, eq != 0);
    ms->addAlignmentPair(a0, a1); ms->addAlignmentPair(a1, a2);
    ccs.push_back(a0); ccs.push_back(a1); ccs.push_back(a2); ccs.push_back(ms);
#elif CC == 6
    std::vector<unsigned> ids; ids.push_back(0); ids.push_back(2);
    double d0 = POSD(2) - POSD(0);
    ccs.push_back(new FixedRelativeConstraint(rs, ids, false));
    double gap = verif_coord(-10, 15);
    ccs.push_back(new SeparationConstraint(dim, 0, 1, gap, false));
#elif CC == 7
    double lo = verif_coord(-30, 0), hi = verif_coord(5, 40);
    PageBoundaryConstraints *pb = new PageBoundaryConstraints(lo, hi, lo, hi, 100.0);
    for (int i = 0; i < NR; i++) pb->addShape(i, W[i] / 2, H[i] / 2);
    ccs.push_back(pb);
#elif CC == 8
    double gap = verif_coord(-10, 15), o1 = verif_coord(-6, 6);
    ccs.push_back(new SeparationConstraint(dim, 0, 1, gap, false));
    AlignmentConstraint *al = new AlignmentConstraint(dim);
    al->addShape(0, 0); al->addShape(1, o1);
    ccs.push_back(al);
    double gap2 = verif_coord(-10, 15);
    ccs.push_back(new SeparationConstraint(dim, 1, 2, gap2, true));
#endif
    double before[NR], other[NR];
    for (int i = 0; i < NR; i++) { before[i] = POSD(i); other[i] = dimc ? rs[i]->getCentreX() : rs[i]->getCentreY(); }
    ProjectionResult r = projectOntoCCs(dim, rs, ccs, false);
    verif_out_int(r.errorLevel);
    double p[NR];
    for (int i = 0; i < NR; i++) { p[i] = POSD(i); verif_out_double(p[i]); }
    for (int i = 0; i < NR; i++) {
        { double dw = rs[i]->width() - W[i], dh = rs[i]->height() - H[i];   // sizes are recomputed from min/max: equal up to rounding
          CHECK((dw <= 1e-9) & (dw >= -1e-9) & (dh <= 1e-9) & (dh >= -1e-9), "C07 rectangle sizes are unchanged by projection"); }
        double o = dimc ? rs[i]->getCentreX() : rs[i]->getCentreY();
        CHECK(o == other[i], "C07 projection in one dimension leaves the other coordinate alone");
        if (r.errorLevel != 0) CHECK(p[i] == before[i], "C07 a rejected projection leaves positions untouched");
    }
    if (r.errorLevel == 0) {
#if CC == 1
        if (eq) CHECK(near(p[0] + gap, p[1]), "C07 equality separation holds");
        else CHECK(p[0] + gap <= p[1] + TOL, "C07 separation holds");
        CHECK(p[1] + gap2 <= p[2] + TOL, "C07 separation holds");
#elif CC == 2
        CHECK(near(p[1] - o1, p[0]) & near(p[2] - o2, p[0]), "C07 alignment with offsets holds");
#elif CC == 3
        // there is a boundary position b with p0 + bo0 <= b <= p1 - bo1
        CHECK(p[0] + bo0 <= p[1] - bo1 + TOL, "C07 boundary separates the two sides by the given offsets");
#elif CC == 4
        CHECK(near(p[0] + sep, p[1]) & near(p[1] + sep, p[2]), "C07 distribution holds");
#elif CC == 5
        if (eq) CHECK(near(p[0] + sep, p[1]) & near(p[1] + sep, p[2]), "C07 equality multi-separation holds");
        else CHECK((p[0] + sep <= p[1] + TOL) & (p[1] + sep <= p[2] + TOL), "C07 multi-separation holds");
#elif CC == 6
        CHECK(near(p[2] - p[0], d0), "C07 fixed-relative group keeps its relative offset");
        CHECK(p[0] + gap <= p[1] + TOL, "C07 separation holds");
#elif CC == 7
        for (int i = 0; i < NR; i++) {
            double half = dimc ? H[i] / 2 : W[i] / 2;
            CHECK((p[i] - half >= lo - TOL) & (p[i] + half <= hi + TOL), "C07 page boundary contains every shape");
        }
#elif CC == 8
        CHECK(p[0] + gap <= p[1] + TOL, "C07 separation holds");
        CHECK(near(p[1] - o1, p[0]), "C07 alignment with offsets holds");
        CHECK(near(p[1] + gap2, p[2]), "C07 equality separation holds");
#endif
    } else {
#if CC == 8
        // a reported failure must be genuine: separation 0->1 with gap contradicts alignment offset o1 exactly when gap > o1
        CHECK(gap > o1, "C07 constraints are reported unsatisfiable only when they are jointly unsatisfiable");
#elif CC == 7
        CHECK(false, "C07 soft page-boundary constraints are never reported unsatisfiable");
#elif CC != 4 && CC != 5 && CC != 3
        CHECK(false, "C07 a satisfiable constraint set is not reported unsatisfiable");
#endif
    }
#if CC == 8
    if (gap > o1) CHECK(r.errorLevel != 0, "C07 jointly unsatisfiable constraints are reported");
#endif
    for (size_t i = 0; i < ccs.size(); i++) delete ccs[i];
    for (int i = 0; i < NR; i++) delete rs[i];
    WITNESS_POINT();
}
