// C05(a): the real Avoid::bends() against EVERY orthogonal path with at most 4 bends: a symbolic polyline that
// starts at curr heading currDir (first segment length >= 0: a bend at the start point counts as a bend), makes K
// turns (left/right symbolic), every later segment > 0, and arrives at dest != curr heading destDir.
// bends() is admissible iff bends() <= K for every such path; together with bends() in [0,4] this covers paths with
// any number of bends.  TIGHT additionally shows the estimate is attained (so the oracle is not vacuous).
#include "verif.h"
#include "libavoid/geomtypes.h"
namespace Avoid { int bends(const Point& curr, unsigned int currDir, const Point& dest, unsigned int destDir); }
using namespace Avoid;
#ifndef GRID
#define GRID 8
#endif
#ifndef LEN
#define LEN 6
#endif
// N=1,E=2,S=4,W=8 ; y grows downwards (S = +y)
static inline unsigned pick_dir(void) { int k = verif_choice(4); return 1u << k; }
static inline unsigned right_of(unsigned d) { return d == 1 ? 2u : d == 2 ? 4u : d == 4 ? 8u : 1u; }
static inline unsigned left_of(unsigned d) { return d == 1 ? 8u : d == 2 ? 1u : d == 4 ? 2u : 4u; }
extern "C" void harness(void) {
    int cx = verif_int_in(-GRID, GRID), cy = verif_int_in(-GRID, GRID);
    unsigned currDir = pick_dir();
    int K = verif_choice(5);
    int x = cx, y = cy; unsigned d = currDir;
    for (int i = 0; i <= K; i++) {
        int len = verif_int_in(i == 0 ? 0 : 1, LEN);
        if (d == 1) y -= len; else if (d == 4) y += len; else if (d == 2) x += len; else x -= len;
        if (i < K) { d = verif_choice(2) ? right_of(d) : left_of(d); }
    }
    ASSUME(!(x == cx && y == cy));
    Point curr(cx, cy), dest(x, y);
    int b = bends(curr, currDir, dest, d);
    verif_out_int(b);
    CHECK(b >= 0 && b <= 4, "C05 bends() is between 0 and 4");
    CHECK(b <= K, "C05 bends() never exceeds the bends of an actual orthogonal path");
    WITNESS_POINT();
}
