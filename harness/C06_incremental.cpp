// C06: incremental transactions give what routing from scratch gives.  A real orthogonal Router with rectangle A and one
// connector (symbolic endpoints) goes through a history of NSTEPS transactions, each drawn by verif_choice from
//   0 move A by a symbolic (dx,dy)   1 delete A   2 add rectangle B (blocks the straight line)   3 move the connector's source
//   4 empty transaction
// After every transaction a FRESH router is built for the current scene on the same path; the incremental route must be
// valid for the scene, cost the same as the fresh route (length + penalty*bends, raw routes), and an empty transaction must
// leave the displayed route bit-identical.
#include "route_common.h"
using namespace Avoid;
#ifndef NSTEPS
#define NSTEPS 2
#endif
#ifndef PEN
#define PEN 50
#endif
struct Scene { bool aAlive, bAlive; VBox a, b; double sx, sy, dx, dy; };
static void add_rect(Router *r, const VBox &b, ShapeRef **out) { Rectangle rect(Point(b.x0, b.y0), Point(b.x1, b.y1)); *out = new ShapeRef(r, rect); }
static double cost_of(const PolyLine &r) { return route_len(r) + (double)PEN * route_bends(r); }
static bool inside(const VBox &b, double x, double y) { return (x > b.x0) & (x < b.x1) & (y > b.y0) & (y < b.y1); }
static void check_valid(const Scene &S, const PolyLine &r) {
    CHECK(r.size() >= 2, "C06 route has at least two points");
    if (r.size() < 2) return;
    CHECK((r.ps[0].x == S.sx) & (r.ps[0].y == S.sy) & (r.ps[r.size() - 1].x == S.dx) & (r.ps[r.size() - 1].y == S.dy), "C06 route joins the current endpoints");
    for (size_t i = 1; i < r.size(); i++) {
        if (S.aAlive) CHECK(!hits_interior(S.a, r.ps[i - 1].x, r.ps[i - 1].y, r.ps[i].x, r.ps[i].y), "C06 route is valid for the final scene (avoids every live shape)");
        if (S.bAlive) CHECK(!hits_interior(S.b, r.ps[i - 1].x, r.ps[i - 1].y, r.ps[i].x, r.ps[i].y), "C06 route is valid for the final scene (avoids every live shape)");
    }
}
extern "C" void harness(void) {
    Scene S; S.aAlive = true; S.bAlive = false;
#ifdef A_ASIDE
    S.a = (VBox){200, 100, 240, 140};      // A is far aside (nothing projects onto the straight line): the first route may be one single visibility edge
#else
    S.a = (VBox){20, 20, 60, 60};
#endif
    S.b = (VBox){70, 10, 90, 70};
    S.sx = verif_coord(0, 10); S.sy = verif_coord(30, 50); S.dx = verif_coord(100, 110); S.dy = verif_coord(30, 50);
    Router *router = new Router(OrthogonalRouting);
    router->setRoutingParameter(segmentPenalty, PEN);
    ShapeRef *A = 0, *B = 0;
    add_rect(router, S.a, &A);
    ConnRef *conn = new ConnRef(router, ConnEnd(Point(S.sx, S.sy)), ConnEnd(Point(S.dx, S.dy)));
    router->processTransaction();
    for (int step = 0; step < NSTEPS; step++) {
        int op = verif_choice(5);
#ifdef OPMASK
        ASSUME((OPMASK >> op) & 1);          // job-level restriction of the operation menu
#endif
        PolyLine before = conn->displayRoute();
        if (op == 0) {
            ASSUME(S.aAlive);
            double mx = verif_coord(-12, 12), my = verif_coord(-45, 45);
            S.a.x0 += mx; S.a.x1 += mx; S.a.y0 += my; S.a.y1 += my;
            ASSUME(!inside(S.a, S.sx, S.sy) & !inside(S.a, S.dx, S.dy));
            router->moveShape(A, mx, my);
        } else if (op == 1) {
            ASSUME(S.aAlive);
            router->deleteShape(A); A = 0; S.aAlive = false;
        } else if (op == 2) {
            ASSUME(!S.bAlive);
            add_rect(router, S.b, &B); S.bAlive = true;
        } else if (op == 3) {
            S.sx = verif_coord(0, 10); S.sy = verif_coord(0, 80);
            ASSUME(!(S.aAlive & inside(S.a, S.sx, S.sy)));
            conn->setSourceEndpoint(ConnEnd(Point(S.sx, S.sy)));
        }
        router->processTransaction();
        const PolyLine &raw = conn->route();
        const PolyLine &disp = conn->displayRoute();
        verif_out_int((int)disp.size());
        for (size_t i = 0; i < disp.size(); i++) { verif_out_double(disp.ps[i].x); verif_out_double(disp.ps[i].y); }
        check_valid(S, raw); check_valid(S, disp);
        if (op == 4) {
            CHECK(before.size() == disp.size(), "C06 a transaction that changes nothing leaves every route unchanged");
            if (before.size() == disp.size()) for (size_t i = 0; i < disp.size(); i++)
                CHECK((before.ps[i].x == disp.ps[i].x) & (before.ps[i].y == disp.ps[i].y), "C06 a transaction that changes nothing leaves every route unchanged");
        }
        // fresh router for the same final scene
        {
            Router *fr = new Router(OrthogonalRouting);
            fr->setRoutingParameter(segmentPenalty, PEN);
            ShapeRef *t;
            if (S.aAlive) add_rect(fr, S.a, &t);
            if (S.bAlive) add_rect(fr, S.b, &t);
            ConnRef *fc = new ConnRef(fr, ConnEnd(Point(S.sx, S.sy)), ConnEnd(Point(S.dx, S.dy)));
            fr->processTransaction();
            double ci = cost_of(raw), cf = cost_of(fc->route());
            verif_out_double(ci); verif_out_double(cf);
            CHECK(ci <= cf + 0x1p-20, "C06 the incremental route costs no more than the route of a freshly constructed router");
            CHECK(cf <= ci + 0x1p-20, "C06 the fresh route costs no more than the incremental one (equal cost)");
            delete fr;
        }
    }
    WITNESS_POINT();
    delete router;
}
