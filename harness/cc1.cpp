#include "../h/verif.h"
#include "libvpsc/rectangle.h"
#include "libcola/cola.h"
#include "libcola/compound_constraints.h"
using namespace cola;
extern "C" void harness(void) {
    vpsc::Rectangles rs;
    for (int i = 0; i < 3; i++) {
        double x = (double)verif_int_in(-20, 20), y = (double)verif_int_in(-20, 20);
        rs.push_back(new vpsc::Rectangle(x - 5, x + 5, y - 3, y + 3));
    }
    double gap = (double)verif_int_in(0, 15);
    CompoundConstraints ccs;
    ccs.push_back(new SeparationConstraint(vpsc::XDIM, 0, 1, gap, false));
    AlignmentConstraint *al = new AlignmentConstraint(vpsc::XDIM);
    al->addShape(1, 0); al->addShape(2, (double)verif_int_in(-4, 4));
    ccs.push_back(al);
    ProjectionResult r = projectOntoCCs(vpsc::XDIM, rs, ccs, false);
    verif_out_int(r.errorLevel);
    double x0 = rs[0]->getCentreX(), x1 = rs[1]->getCentreX(), x2 = rs[2]->getCentreX();
    verif_out_double(x0); verif_out_double(x1); verif_out_double(x2);
    CHECK(r.errorLevel != 0 || x0 + gap <= x1 + 1e-4, "C07 separation holds");
    CHECK(rs[0]->width() == 10 && rs[2]->height() == 6, "C07 sizes unchanged");
}
