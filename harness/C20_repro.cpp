// C20: reproducibility and frame independence, as 2-safety checks by self-composition inside one path:
// the same computation is run twice on equal symbolic inputs -- the second time after unrelated allocations and with the
// executor's heap address order REVERSED (later objects get lower addresses), which flips every pointer-valued tie-break --
// and the outputs must be identical.  Translation / mirror variants compare against a transformed copy of the problem.
//   -DSUBJECT=1 VPSC IncSolver::solve (NV variables, NC constraints, symbolic structure)
//   -DSUBJECT=2 vpsc::removeoverlaps (NR rectangles)
//   -DSUBJECT=3 orthogonal routing scene (1-2 rectangles, 1 connector)
//   -DVARIANT=0 repeat under reversed heap order   1 translate by a symbolic multiple of 2^-10   2 mirror x -> -x (routing: equal cost)
#include "verif.h"
#include <cstddef>
#include <vector>
#include <set>
#ifndef SUBJECT
#define SUBJECT 1
#endif
#ifndef VARIANT
#define VARIANT 0
#endif
static void unrelated_work(std::vector<char *> &junk) {
    for (int i = 0; i < 5; i++) { char *p = new char[24 + 8 * i]; p[0] = (char)i; junk.push_back(p); }
}
static void free_junk(std::vector<char *> &junk) { for (size_t i = 0; i < junk.size(); i++) delete[] junk[i]; junk.clear(); }

#if SUBJECT == 1
#include "libvpsc/variable.h"
#include "libvpsc/constraint.h"
#include "libvpsc/solve_VPSC.h"
using namespace vpsc;
#ifndef NV
#define NV 3
#endif
#ifndef NC
#define NC 3
#endif
struct Prob { unsigned l[NC], r[NC]; double gap[NC], d[NV]; };
static void solve_once(const Prob &P, double shift, double *out, bool *flags) {
    Variables vs; Constraints cs;
    for (int i = 0; i < NV; i++) vs.push_back(new Variable(i, P.d[i] + shift, 1.0));
    for (int j = 0; j < NC; j++) cs.push_back(new Constraint(vs[P.l[j]], vs[P.r[j]], P.gap[j]));
    IncSolver s(vs, cs);
    s.solve();
    for (int i = 0; i < NV; i++) out[i] = vs[i]->finalPosition;
    for (int j = 0; j < NC; j++) flags[j] = cs[j]->unsatisfiable;
    for (int j = 0; j < NC; j++) delete cs[j];
    for (int i = 0; i < NV; i++) delete vs[i];
}
extern "C" void harness(void) {
    Prob P;
    for (int i = 0; i < NV; i++) P.d[i] = verif_coord(-4, 4);
    for (int j = 0; j < NC; j++) {
        P.l[j] = (unsigned)verif_choice(NV); unsigned r = (unsigned)verif_choice(NV - 1); P.r[j] = r >= P.l[j] ? r + 1 : r;
        P.gap[j] = verif_coord(-2, 3);
    }
    double a[NV], b[NV]; bool fa[NC], fb[NC];
    solve_once(P, 0.0, a, fa);
    for (int i = 0; i < NV; i++) verif_out_double(a[i]);
    std::vector<char *> junk; unrelated_work(junk);
#if VARIANT == 0
    verif_heap_order(1);
    solve_once(P, 0.0, b, fb);
    verif_heap_order(0);
    for (int i = 0; i < NV; i++) CHECK(a[i] == b[i], "C20 repeating a VPSC solve gives bit-identical positions irrespective of heap layout");
    for (int j = 0; j < NC; j++) CHECK(fa[j] == fb[j], "C20 repeating a VPSC solve flags the same constraints");
#else
    double t = verif_dyadic(-8, 8, 10);
    solve_once(P, t, b, fb);
    bool anyflag = false; for (int j = 0; j < NC; j++) anyflag = anyflag | fa[j] | fb[j];
    if (!anyflag) for (int i = 0; i < NV; i++) { double d = b[i] - (a[i] + t); CHECK((d <= 1e-9) & (d >= -1e-9), "C20 translating a VPSC problem translates its solution"); }
#endif
    free_junk(junk);
    WITNESS_POINT();
}
#elif SUBJECT == 2
#include "libvpsc/rectangle.h"
using namespace vpsc;
#ifndef NR
#define NR 2
#endif
extern "C" void harness(void) {
    double x[NR], y[NR], w[NR], h[NR];
    for (int i = 0; i < NR; i++) { x[i] = verif_coord(0, 6); y[i] = verif_coord(0, 6); w[i] = verif_coord(1, 3); h[i] = verif_coord(1, 3); }
    double ax[NR], ay[NR];
    for (int run = 0; run < 2; run++) {
        std::vector<char *> junk;
#if VARIANT == 0
        double t = 0;
        if (run == 1) { unrelated_work(junk); verif_heap_order(1); }
#else
        double t = run == 1 ? verif_dyadic(-8, 8, 10) : 0.0;
#endif
        Rectangles rs;
        for (int i = 0; i < NR; i++) rs.push_back(new Rectangle(x[i] + t, x[i] + t + w[i], y[i] + t, y[i] + t + h[i]));
        removeoverlaps(rs);
        for (int i = 0; i < NR; i++) {
            double cx = rs[i]->getCentreX(), cy = rs[i]->getCentreY();
            if (run == 0) { ax[i] = cx; ay[i] = cy; verif_out_double(cx); verif_out_double(cy); }
            else {
#if VARIANT == 0
                CHECK((cx == ax[i]) & (cy == ay[i]), "C20 repeating removeoverlaps gives bit-identical positions irrespective of heap layout");
#else
                double dx = cx - (ax[i] + t), dy = cy - (ay[i] + t);
                CHECK((dx <= 1e-9) & (dx >= -1e-9) & (dy <= 1e-9) & (dy >= -1e-9), "C20 translating the rectangles translates the result of removeoverlaps");
#endif
            }
        }
        for (int i = 0; i < NR; i++) delete rs[i];
        verif_heap_order(0);
        free_junk(junk);
    }
    WITNESS_POINT();
}
#else
#include "libavoid/libavoid.h"
using namespace Avoid;
#ifndef PEN
#define PEN 50
#endif
static const int SRCB[4] = {SRC}, DSTB[4] = {DST}, RC0[4] = {R0};
#ifdef R1
static const int RC1[4] = {R1};
#define NRECT 2
#else
#define NRECT 1
#endif
struct Out { int n; double xs[16], ys[16]; double len; int bends; };
static double dabs(double v) { return v < 0 ? -v : v; }
static void route_once(double sx, double sy, double dx, double dy, double tx, double ty, double mir, Out &o) {
    Router *router = new Router(OrthogonalRouting);
    router->setRoutingParameter(segmentPenalty, PEN);
    const int *RC[2] = {RC0,
#ifdef R1
        RC1
#else
        RC0
#endif
    };
    for (int k = 0; k < NRECT; k++) {
        double xa = mir * RC[k][0] + tx, xb = mir * RC[k][2] + tx;
        Rectangle rect(Point(xa < xb ? xa : xb, RC[k][1] + ty), Point(xa < xb ? xb : xa, RC[k][3] + ty));
        new ShapeRef(router, rect);
    }
    ConnRef *conn = new ConnRef(router, ConnEnd(Point(mir * sx + tx, sy + ty)), ConnEnd(Point(mir * dx + tx, dy + ty)));
    router->processTransaction();
    const PolyLine &r = conn->displayRoute();
    o.n = (int)r.size(); o.len = 0; o.bends = 0;
    for (int i = 0; i < o.n && i < 16; i++) { o.xs[i] = r.ps[i].x; o.ys[i] = r.ps[i].y; }
    for (int i = 1; i < o.n && i < 16; i++) o.len = o.len + dabs(o.xs[i] - o.xs[i - 1]) + dabs(o.ys[i] - o.ys[i - 1]);
    for (int i = 2; i < o.n && i < 16; i++) {
        bool h1 = o.ys[i - 1] == o.ys[i - 2], h2 = o.ys[i] == o.ys[i - 1];
        if (h1 != h2) o.bends++;
    }
    delete router;
}
extern "C" void harness(void) {
    double sx = verif_coord(SRCB[0], SRCB[1]), sy = verif_coord(SRCB[2], SRCB[3]);
    double dx = verif_coord(DSTB[0], DSTB[1]), dy = verif_coord(DSTB[2], DSTB[3]);
    Out a, b;
    route_once(sx, sy, dx, dy, 0, 0, 1.0, a);
    verif_out_int(a.n);
    for (int i = 0; i < a.n && i < 16; i++) { verif_out_double(a.xs[i]); verif_out_double(a.ys[i]); }
    std::vector<char *> junk; unrelated_work(junk);
#if VARIANT == 0
    verif_heap_order(1);
    route_once(sx, sy, dx, dy, 0, 0, 1.0, b);
    verif_heap_order(0);
    CHECK(a.n == b.n, "C20 repeating a routing run gives the same number of route points");
    if (a.n == b.n) for (int i = 0; i < a.n && i < 16; i++)
        CHECK((a.xs[i] == b.xs[i]) & (a.ys[i] == b.ys[i]), "C20 repeating a routing run gives a bit-identical route irrespective of heap layout");
#elif VARIANT == 1
    double tx = verif_dyadic(-8, 8, 10), ty = verif_dyadic(-8, 8, 10);
    route_once(sx, sy, dx, dy, tx, ty, 1.0, b);
    CHECK(a.n == b.n, "C20 translating a routing scene keeps the number of route points");
    if (a.n == b.n) for (int i = 0; i < a.n && i < 16; i++)
        CHECK((a.xs[i] + tx == b.xs[i]) & (a.ys[i] + ty == b.ys[i]), "C20 translating a routing scene translates the route exactly");
#else
    route_once(sx, sy, dx, dy, 0, 0, -1.0, b);
    CHECK(a.len + (double)PEN * a.bends == b.len + (double)PEN * b.bends, "C20 mirroring a routing scene leaves the route's cost unchanged");
#endif
    free_junk(junk);
    WITNESS_POINT();
}
#endif
