// C16: libavoid geometry predicates against exact integer arithmetic, all integer inputs in [-G,G].
// Every coordinate is a symbolic integer; products stay below 2^53, so the executor's exactness rule makes the
// real code's double arithmetic bit-exact and each CHECK is an exact statement decided by z3.
//   -DWHICH=n selects the predicate, -DG=bound
#include "verif.h"
#include "libavoid/geometry.h"
#include "libavoid/geomtypes.h"
using namespace Avoid;
#ifndef G
#define G 1048576
#endif
typedef long long ll;
VERIF_NOOPT static ll cross(ll ax, ll ay, ll bx, ll by, ll cx, ll cy) { return (bx - ax) * (cy - ay) - (cx - ax) * (by - ay); }
VERIF_NOOPT static int sg(ll v) { return v < 0 ? -1 : (v > 0 ? 1 : 0); }
// c strictly inside the open segment ab (exact)
VERIF_NOOPT static bool on_open(ll ax, ll ay, ll bx, ll by, ll cx, ll cy) {
    ll cr = cross(ax, ay, bx, by, cx, cy);
    ll dot1 = (cx - ax) * (bx - ax) + (cy - ay) * (by - ay);
    ll len2 = (bx - ax) * (bx - ax) + (by - ay) * (by - ay);
    return (cr == 0) & (dot1 > 0) & (dot1 < len2);
}
VERIF_NOOPT static bool proper_cross(ll ax, ll ay, ll bx, ll by, ll cx, ll cy, ll dx, ll dy) {
    int o1 = sg(cross(ax, ay, bx, by, cx, cy)), o2 = sg(cross(ax, ay, bx, by, dx, dy));
    int o3 = sg(cross(cx, cy, dx, dy, ax, ay)), o4 = sg(cross(cx, cy, dx, dy, bx, by));
    return (o1 * o2 < 0) & (o3 * o4 < 0);
}
#define IN() verif_int_in(-G, G)

#if WHICH == 8
#define HARNESS_ATTR            /* optimised: min/max become selects instead of forks (sound either way, see verif.h) */
#else
#define HARNESS_ATTR VERIF_NOOPT
#endif
extern "C" HARNESS_ATTR void harness(void) {
#if WHICH == 1      // vecDir
    int ax = IN(), ay = IN(), bx = IN(), by = IN(), cx = IN(), cy = IN();
    Point a(ax, ay), b(bx, by), c(cx, cy);
    int r = vecDir(a, b, c);
    verif_out_int(r);
    CHECK(r == sg(cross(ax, ay, bx, by, cx, cy)), "C16 vecDir equals exact orientation sign");
    CHECK(vecDir(b, a, c) == -r, "C16 vecDir antisymmetric under swapping a,b");
    CHECK(vecDir(b, c, a) == r, "C16 vecDir invariant under cyclic rotation");
#elif WHICH == 2    // segmentIntersect + symmetries
    int ax = IN(), ay = IN(), bx = IN(), by = IN(), cx = IN(), cy = IN(), dx = IN(), dy = IN();
    Point a(ax, ay), b(bx, by), c(cx, cy), d(dx, dy);
    bool r = segmentIntersect(a, b, c, d);
    verif_out_int(r);
    CHECK(r == proper_cross(ax, ay, bx, by, cx, cy, dx, dy), "C16 segmentIntersect equals exact proper-crossing test");
    CHECK(segmentIntersect(b, a, c, d) == r, "C16 segmentIntersect symmetric under reversing ab");
    CHECK(segmentIntersect(a, b, d, c) == r, "C16 segmentIntersect symmetric under reversing cd");
    CHECK(segmentIntersect(c, d, a, b) == r, "C16 segmentIntersect symmetric under swapping segments");
#elif WHICH == 3    // pointOnLine, colinear, inBetween
    int ax = IN(), ay = IN(), bx = IN(), by = IN(), cx = IN(), cy = IN();
    Point a(ax, ay), b(bx, by), c(cx, cy);
    bool r = pointOnLine(a, b, c);
    verif_out_int(r);
    CHECK(r == on_open(ax, ay, bx, by, cx, cy), "C16 pointOnLine equals exact open-segment membership");
    CHECK(pointOnLine(b, a, c) == r, "C16 pointOnLine symmetric under reversing the segment");
    bool col = colinear(a, b, c);
    CHECK(col == (cross(ax, ay, bx, by, cx, cy) == 0), "C16 colinear equals exact zero-area test");
    if (col) {
        bool ib = inBetween(a, b, c);
        CHECK(ib == on_open(ax, ay, bx, by, cx, cy), "C16 inBetween (collinear inputs) equals exact open-segment membership");
    }
#elif WHICH == 4    // segmentShapeIntersect: one shape edge s1-s2 against the segment e1-e2
    int ax = IN(), ay = IN(), bx = IN(), by = IN(), cx = IN(), cy = IN(), dx = IN(), dy = IN();
    Point e1(ax, ay), e2(bx, by), s1(cx, cy), s2(dx, dy);
    int seen0 = verif_choice(2);
    bool seen = seen0 != 0;
    bool r = segmentShapeIntersect(e1, e2, s1, s2, seen);
    verif_out_int(r); verif_out_int(seen);
    bool prop = proper_cross(ax, ay, bx, by, cx, cy, dx, dy);
    // e_k touches the half-open shape edge (s1,s2] while the other end is off the edge's line
    bool t1 = (((dx == ax) & (dy == ay)) | on_open(cx, cy, dx, dy, ax, ay)) & (cross(cx, cy, dx, dy, bx, by) != 0);
    bool t2 = (((dx == bx) & (dy == by)) | on_open(cx, cy, dx, dy, bx, by)) & (cross(cx, cy, dx, dy, ax, ay) != 0);
    bool touch = t1 | t2;
    bool exp_r = prop | (!prop & touch & (seen0 != 0));
    bool exp_seen = (seen0 != 0) | (!prop & touch);
    CHECK(r == exp_r, "C16 segmentShapeIntersect blocks exactly on a proper crossing or a second endpoint touch");
    CHECK(seen == exp_seen, "C16 segmentShapeIntersect records an endpoint touch exactly when one occurs");
    bool seen2 = seen0 != 0;
    bool r2 = segmentShapeIntersect(e2, e1, s1, s2, seen2);
    CHECK(r2 == r && seen2 == seen, "C16 segmentShapeIntersect symmetric under reversing the tested segment");
#elif WHICH == 5 || WHICH == 6   // inPoly / inPolyGen on triangles (5) and convex quadrilaterals (6)
#if WHICH == 5
    const int N = 3;
#else
    const int N = 4;
#endif
    int px[N], py[N];
    Polygon poly(N);
    for (int i = 0; i < N; i++) { px[i] = IN(); py[i] = IN(); poly.ps[i] = Point(px[i], py[i]); }
    int qx = IN(), qy = IN();
    Point q(qx, qy);
    // libavoid shapes are convex with vertices in the orientation for which vecDir(prev,cur,next) >= 0
    bool convex = true, nondeg = false;
    for (int i = 0; i < N; i++) {
        int j = (i + 1) % N, k = (i + 2) % N;
        ll c = cross(px[i], py[i], px[j], py[j], px[k], py[k]);
        convex = convex & (c >= 0); nondeg = nondeg | (c > 0);
    }
    ASSUME(convex && nondeg);
#if WHICH == 6
    // a quadrilateral with all turns >= 0 may still wind twice only if degenerate; exclude repeated vertices
    for (int i = 0; i < N; i++) for (int j = i + 1; j < N; j++) ASSUME(px[i] != px[j] || py[i] != py[j]);
#endif
    bool allge = true, allgt = true, onvertex = false;
    for (int i = 0; i < N; i++) {
        int j = (i + 1) % N;
        ll c = cross(px[i], py[i], px[j], py[j], qx, qy);
        allge = allge & (c >= 0); allgt = allgt & (c > 0);
        onvertex = onvertex | ((px[i] == qx) & (py[i] == qy));
    }
    bool in_b = inPoly(poly, q, true), in_s = inPoly(poly, q, false);
    verif_out_int(in_b); verif_out_int(in_s);
    CHECK(in_b == allge, "C16 inPoly(countBorder) equals exact closed convex-polygon membership");
    CHECK(in_s == allgt, "C16 inPoly(!countBorder) equals exact open convex-polygon membership");
#ifdef GEN
    bool gen = inPolyGen(poly, q);
    verif_out_int(gen);
    CHECK(gen == allge, "C16 inPolyGen equals exact closed membership on convex polygons");
#endif
    (void)onvertex;
#elif WHICH == 7    // inValidRegion and cornerSide
    int ax = IN(), ay = IN(), bx = IN(), by = IN(), cx = IN(), cy = IN(), dx = IN(), dy = IN();
    Point a0(ax, ay), a1(bx, by), a2(cx, cy), b(dx, dy);
    int ign = verif_choice(2);
    bool r = inValidRegion(ign != 0, a0, a1, a2, b);
    verif_out_int(r);
    // cone definitions (Avoid's InCone): with rS = side of a1 seen from ray b->a0, sS = side of a2 from ray b->a1
    ll rS = cross(dx, dy, ax, ay, bx, by), sS = cross(dx, dy, bx, by, cx, cy);
    bool cvx = cross(ax, ay, bx, by, cx, cy) > 0;
    bool exp_r;
    if (cvx) exp_r = ign ? (((rS <= 0) & !(sS < 0)) | (!(rS < 0) & (sS <= 0))) : ((rS <= 0) | (sS <= 0));
    else exp_r = ign ? false : ((rS <= 0) & (sS <= 0));
    CHECK(r == exp_r, "C16 inValidRegion equals the exact cone test");
    int cs = cornerSide(a0, a1, a2, b);
    verif_out_int(cs);
    ll s123 = cross(ax, ay, bx, by, cx, cy), s12p = cross(ax, ay, bx, by, dx, dy), s23p = cross(bx, by, cx, cy, dx, dy);
    int exp_cs = s123 > 0 ? (((s12p >= 0) & (s23p >= 0)) ? 1 : -1) : s123 < 0 ? (((s12p <= 0) & (s23p <= 0)) ? -1 : 1) : sg(s12p);
    CHECK(cs == exp_cs, "C16 cornerSide equals the exact corner-side definition");
    CHECK(cornerSide(a2, a1, a0, b) == -cs || s123 == 0, "C16 cornerSide flips sign when the corner is traversed backwards");
#elif WHICH == 8    // segmentIntersectPoint / rayIntersectPoint: classification exact, point on both lines
    int ax = IN(), ay = IN(), bx = IN(), by = IN(), cx = IN(), cy = IN(), dx = IN(), dy = IN();
    Point a1(ax, ay), a2(bx, by), b1(cx, cy), b2(dx, dy);
    double x = 0, y = 0;
    int r = segmentIntersectPoint(a1, a2, b1, b2, &x, &y);
    verif_out_int(r);
    ll o1 = cross(ax, ay, bx, by, cx, cy), o2 = cross(ax, ay, bx, by, dx, dy);
    ll o3 = cross(cx, cy, dx, dy, ax, ay), o4 = cross(cx, cy, dx, dy, bx, by);
    ll den = (ll)(by - ay) * (cx - dx) - (ll)(bx - ax) * (cy - dy);     // zero iff the two direction vectors are parallel
    bool closed_meet = (sg(o1) * sg(o2) <= 0) & (sg(o3) * sg(o4) <= 0);
    ll xlo1 = ax < bx ? ax : bx, xhi1 = ax < bx ? bx : ax, ylo1 = ay < by ? ay : by, yhi1 = ay < by ? by : ay;
    ll xlo2 = cx < dx ? cx : dx, xhi2 = cx < dx ? dx : cx, ylo2 = cy < dy ? cy : dy, yhi2 = cy < dy ? dy : cy;
    bool boxes = (xhi1 >= xlo2) & (xhi2 >= xlo1) & (yhi1 >= ylo2) & (yhi2 >= ylo1);
    int exp_r;
    if (den != 0) exp_r = closed_meet ? DO_INTERSECT : DONT_INTERSECT;
    else exp_r = (boxes & (o1 == 0) & (o2 == 0) & (o3 == 0) & (o4 == 0)) ? PARALLEL : DONT_INTERSECT;
    CHECK(r == exp_r, "C16 segmentIntersectPoint classification equals exact closed-segment intersection");
    double rx = 0, ry = 0;
    int rr = rayIntersectPoint(a1, a2, b1, b2, &rx, &ry);
    CHECK(rr == (den != 0 ? DO_INTERSECT : PARALLEL), "C16 rayIntersectPoint reports PARALLEL exactly for parallel lines");
#ifdef POINTCHK
    if (r == DO_INTERSECT) {
        // the returned point lies on both supporting lines (up to rounding of one division and one addition)
        double ca = (double)(bx - ax) * (y - ay) - (x - ax) * (double)(by - ay);
        double cb = (double)(dx - cx) * (y - cy) - (x - cx) * (double)(dy - cy);
        CHECK(ca <= 1e-6 && ca >= -1e-6, "C16 intersection point lies on the first segment's line");
        CHECK(cb <= 1e-6 && cb >= -1e-6, "C16 intersection point lies on the second segment's line");
        CHECK(rx == x && ry == y, "C16 ray and segment intersection agree when both intersect");
    }
#endif
#endif
    WITNESS_POINT();
}
