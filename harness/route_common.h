// shared helpers of the libavoid pipeline harnesses (C03/C05/C06/C10/C11/C15)
#pragma once
#include "verif.h"
#include "libavoid/libavoid.h"
struct VBox { double x0, y0, x1, y1; };
static inline double dabs(double v) { return v < 0 ? -v : v; }
// open interior of box b is hit by the closed axis-parallel segment p-q ?  (no branching: bitwise logic)
static inline bool hits_interior(const VBox &b, double px, double py, double qx, double qy) {
    bool xin = ((px < b.x1) | (qx < b.x1)) & ((px > b.x0) | (qx > b.x0));
    bool yin = ((py < b.y1) | (qy < b.y1)) & ((py > b.y0) | (qy > b.y0));
    return xin & yin;
}
static inline double route_len(const Avoid::PolyLine &r) {
    double c = 0;
    for (size_t i = 1; i < r.size(); i++) c += dabs(r.ps[i].x - r.ps[i - 1].x) + dabs(r.ps[i].y - r.ps[i - 1].y);
    return c;
}
// bends of an orthogonal polyline: direction changes between consecutive non-degenerate segments (a reversal counts 2)
static inline int route_bends(const Avoid::PolyLine &raw) {
    int nb = 0, pdx = 0, pdy = 0; bool have = false;
    for (size_t i = 1; i < raw.size(); i++) {
        double ex = raw.ps[i].x - raw.ps[i - 1].x, ey = raw.ps[i].y - raw.ps[i - 1].y;
        int cdx = ex > 0 ? 1 : (ex < 0 ? -1 : 0), cdy = ey > 0 ? 1 : (ey < 0 ? -1 : 0);
        if (cdx == 0 && cdy == 0) continue;
        if (have) { if (cdx == -pdx && cdy == -pdy) nb += 2; else if (cdx != pdx || cdy != pdy) nb += 1; }
        pdx = cdx; pdy = cdy; have = true;
    }
    return nb;
}
