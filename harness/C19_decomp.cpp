// C19: libdialect graph decompositions on ALL simple graphs with NN nodes: every edge-presence bit is a forked
// choice, so the executor enumerates the structures and runs the real code on each; assertions are decided per path.
//   -DPART=0  dialect::peel on connected graphs (the connectivity precondition is ASSUMEd)
//   -DPART=1  Graph::getConnComps on arbitrary graphs
//   -DPART=2  Tree::symmetricLayout on all rooted trees (parent choices), symbolic node sizes
#include "verif.h"
#include <vector>
#include <map>
#include <set>
#include "libdialect/commontypes.h"
#include "libdialect/graphs.h"
#include "libdialect/peeling.h"
#include "libdialect/trees.h"
using namespace dialect;
#ifndef NN
#define NN 4
#endif
#ifndef PART
#define PART 0
#endif

static bool connected_ids(const Graph &g) {
    // BFS over the graph's own edge lists
    if (g.getNumNodes() == 0) return true;
    std::set<id_type> seen; std::vector<id_type> work;
    id_type s = g.getNodeLookup().begin()->first; seen.insert(s); work.push_back(s);
    while (!work.empty()) {
        id_type u = work.back(); work.pop_back();
        for (auto pe : g.getEdgeLookup()) {
            std::pair<id_type, id_type> e = pe.second->getEndIds();
            id_type v;
            if (e.first == u) v = e.second; else if (e.second == u) v = e.first; else continue;
            if (!seen.count(v)) { seen.insert(v); work.push_back(v); }
        }
    }
    return seen.size() == g.getNumNodes();
}

extern "C" void harness(void) {
#if PART == 0 || PART == 1
    Graph g;
    std::vector<Node_SP> ns; std::vector<id_type> ids;
    for (int i = 0; i < NN; i++) { Node_SP n = Node::allocate(10, 10); g.addNode(n); ns.push_back(n); ids.push_back(n->id()); }
    bool adj[NN][NN]; int ne = 0;
    for (int i = 0; i < NN; i++) for (int j = 0; j < NN; j++) adj[i][j] = false;
    for (int i = 0; i < NN; i++) for (int j = i + 1; j < NN; j++) {
        if (verif_choice(2)) { g.addEdge(Edge::allocate(ns[i], ns[j])); adj[i][j] = adj[j][i] = true; ne++; }
    }
    verif_out_int(ne);
#endif
#if PART == 0
    {   // precondition of peel: the graph is connected
        bool r[NN]; for (int i = 0; i < NN; i++) r[i] = false; r[0] = true;
        for (int k = 0; k < NN; k++) for (int i = 0; i < NN; i++) if (r[i]) for (int j = 0; j < NN; j++) if (adj[i][j]) r[j] = true;
        bool conn = true; for (int i = 0; i < NN; i++) conn = conn && r[i];
        ASSUME(conn);
    }
    Trees trees = peel(g);
    verif_out_int((int)trees.size()); verif_out_int((int)g.getNumNodes());
    // --- node partition
    for (int i = 0; i < NN; i++) {
        int inCore = g.hasNode(ids[i]) ? 1 : 0, inTrees = 0; bool asRoot = false;
        for (Tree_SP t : trees) if (t->underlyingGraph()->hasNode(ids[i])) { inTrees++; asRoot = (t->getRootNodeID() == ids[i]); }
        CHECK(inCore + inTrees >= 1, "C19 peel: every node is in the core or in a tree");
        CHECK(inTrees <= 1, "C19 peel: no node is in two trees");
        CHECK(!(inCore == 1 && inTrees == 1) || asRoot, "C19 peel: only tree roots are shared between the core and a tree");
    }
    // --- every tree is a tree, rooted at a node it contains, root flagged
    size_t treeEdges = 0;
    for (Tree_SP t : trees) {
        Graph_SP tg = t->underlyingGraph();
        CHECK(tg->getNumNodes() >= 2, "C19 peel: a tree has at least one edge");
        CHECK(tg->getNumEdges() == tg->getNumNodes() - 1, "C19 peel: a tree is acyclic (|E| = |V|-1)");
        CHECK(connected_ids(*tg), "C19 peel: a tree is connected");
        CHECK(tg->hasNode(t->getRootNodeID()), "C19 peel: the root belongs to its tree");
        CHECK(g.isEmpty() || g.hasNode(t->getRootNodeID()), "C19 peel: with a non-empty core every tree root is a core node");
        treeEdges += tg->getNumEdges();
    }
    // --- edge partition: every input edge in exactly one part, nothing invented
    CHECK(g.getNumEdges() + treeEdges == (size_t)ne, "C19 peel: core and trees together have exactly the input's edges");
    for (int i = 0; i < NN; i++) for (int j = i + 1; j < NN; j++) {
        int cnt = 0;
        for (auto pe : g.getEdgeLookup()) { auto e = pe.second->getEndIds(); if ((e.first == ids[i] && e.second == ids[j]) || (e.first == ids[j] && e.second == ids[i])) cnt++; }
        for (Tree_SP t : trees) for (auto pe : t->underlyingGraph()->getEdgeLookup()) {
            auto e = pe.second->getEndIds(); if ((e.first == ids[i] && e.second == ids[j]) || (e.first == ids[j] && e.second == ids[i])) cnt++; }
        CHECK(cnt == (adj[i][j] ? 1 : 0), "C19 peel: every input edge is in exactly one part");
    }
    // --- a non-empty core has no leaf
    for (auto p : g.getNodeLookup()) CHECK(p.second->getDegree() != 1, "C19 peel: a non-empty core has no node of degree one");
    CHECK(connected_ids(g), "C19 peel: the core of a connected graph is connected");
#elif PART == 1
    std::vector<Graph_SP> comps = g.getConnComps();
    verif_out_int((int)comps.size());
    size_t tn = 0, te = 0;
    for (Graph_SP c : comps) {
        CHECK(c->getNumNodes() >= 1 && connected_ids(*c), "C19 components: every component is non-empty and connected");
        tn += c->getNumNodes(); te += c->getNumEdges();
    }
    CHECK(tn == (size_t)NN && te == (size_t)ne, "C19 components: node and edge counts add up");
    int compOf[NN];
    for (int i = 0; i < NN; i++) {
        int cnt = 0; compOf[i] = -1;
        for (size_t k = 0; k < comps.size(); k++) if (comps[k]->hasNode(ids[i])) { cnt++; compOf[i] = (int)k; }
        CHECK(cnt == 1, "C19 components: every node is in exactly one component");
    }
    for (int i = 0; i < NN; i++) for (int j = i + 1; j < NN; j++) if (adj[i][j]) {
        CHECK(compOf[i] == compOf[j], "C19 components: adjacent nodes are in the same component");
        int cnt = 0;
        for (Graph_SP c : comps) for (auto pe : c->getEdgeLookup()) {
            auto e = pe.second->getEndIds(); if ((e.first == ids[i] && e.second == ids[j]) || (e.first == ids[j] && e.second == ids[i])) cnt++; }
        CHECK(cnt == 1, "C19 components: every edge is in exactly one component");
    }
    // oracle: number of components by union-find on the adjacency matrix
    {
        int lab[NN]; for (int i = 0; i < NN; i++) lab[i] = i;
        for (int k = 0; k < NN; k++) for (int i = 0; i < NN; i++) for (int j = 0; j < NN; j++) if (adj[i][j] && lab[j] > lab[i]) lab[j] = lab[i];
        int nc = 0; for (int i = 0; i < NN; i++) if (lab[i] == i) nc++;
        CHECK((int)comps.size() == nc, "C19 components: the number of components equals the oracle's");
    }
#elif PART == 2
    {
        Graph_SP tg = std::make_shared<Graph>();
        std::vector<Node_SP> ns;
        for (int i = 0; i < NN; i++) {
            double w = verif_coord(2, 30), h = verif_coord(2, 30);
            Node_SP n = Node::allocate(w, h); tg->addNode(n); ns.push_back(n);
        }
        for (int i = 1; i < NN; i++) { int p = verif_choice(i); tg->addEdge(Edge::allocate(ns[p], ns[i])); }
#ifdef DIR
        int dir = DIR;
#else
        int dir = verif_choice(4);
#endif
        Tree_SP t = std::make_shared<Tree>(tg, ns[0]);
        t->symmetricLayout((CardinalDir)dir, 10, 40);
        for (int i = 0; i < NN; i++) { Avoid::Point c = ns[i]->getCentre(); verif_out_double(c.x); verif_out_double(c.y); }
        for (int i = 0; i < NN; i++) for (int j = i + 1; j < NN; j++) {
            Avoid::Point a = ns[i]->getCentre(), b = ns[j]->getCentre();
            CHECK((a.x != b.x) | (a.y != b.y), "C19 symmetric layout: no two tree nodes coincide");
            dimensions da = ns[i]->getDimensions(), db = ns[j]->getDimensions();
            bool ox = (a.x - b.x < (da.first + db.first) / 2) & (b.x - a.x < (da.first + db.first) / 2);
            bool oy = (a.y - b.y < (da.second + db.second) / 2) & (b.y - a.y < (da.second + db.second) / 2);
            CHECK(!(ox & oy), "C19 symmetric layout: no two tree node boxes overlap");
        }
    }
#endif
    WITNESS_POINT();
}
