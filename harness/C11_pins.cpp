// C11: pins, junctions and checkpoints are honoured by routes (real orthogonal Router).
//   -DPART=0  one shape S (symbolic position) with two pins of class 1 (LEFT-centre and RIGHT-centre, exclusive or shared),
//             NCONN connectors from that class to free symbolic points; then S is moved by a symbolic offset and re-routed
//   -DPART=1  pin position kernel: proportional/absolute offsets x inside offset on a symbolic rectangle vs the formula
//   -DPART=2  checkpoint between two free ends   PART=3 junction end   PART=4 checkpoint + junction end
#include "route_common.h"
#include "libavoid/connectionpin.h"
#include "libavoid/junction.h"
using namespace Avoid;
#ifndef PART
#define PART 0
#endif
#ifndef NCONN
#define NCONN 1
#endif
#ifndef EXCL
#define EXCL true
#endif
#ifndef PEN
#define PEN 50
#endif
#ifndef BUF
#define BUF 4
#endif
#if BUF == 0
#define MSG_DIR "C11 an orthogonal route leaves the pin in one of its permitted directions [shapeBufferDistance 0, pin on the shape edge]"
#else
#define MSG_DIR "C11 an orthogonal route leaves the pin in one of its permitted directions"
#endif
static bool same_pt(const Point &a, double x, double y) { return (a.x == x) & (a.y == y); }

extern "C" void harness(void) {
    Router *router = new Router(OrthogonalRouting);
    router->setRoutingParameter(segmentPenalty, PEN);
#if PART != 1
    router->setRoutingParameter(shapeBufferDistance, BUF);
#endif
#if PART == 0
    double ox = verif_coord(0, 10), oy = verif_coord(0, 10);
    double W = 40, H = 20;
    Rectangle rect(Point(40 + ox, 40 + oy), Point(40 + ox + W, 40 + oy + H));
    ShapeRef *S = new ShapeRef(router, rect);
    ShapeConnectionPin *pl = new ShapeConnectionPin(S, 1, ATTACH_POS_LEFT, ATTACH_POS_CENTRE, true, 0.0, ConnDirLeft);
    ShapeConnectionPin *pr = new ShapeConnectionPin(S, 1, ATTACH_POS_RIGHT, ATTACH_POS_CENTRE, true, 0.0, ConnDirRight);
    pl->setExclusive(EXCL); pr->setExclusive(EXCL);
    ConnRef *conns[NCONN]; double fx[NCONN], fy[NCONN];
    for (int k = 0; k < NCONN; k++) {
        #ifdef FREEFIX
        fx[k] = 60 + 50 * k; fy[k] = 100 + 20 * k;         // concrete free ends: the symbolic part is the shape position and its move
#else
        fx[k] = verif_coord(0, 140); fy[k] = verif_coord(100 + 20 * k, 110 + 20 * k);
#endif
        conns[k] = new ConnRef(router, ConnEnd(S, 1), ConnEnd(Point(fx[k], fy[k])));
    }
    router->processTransaction();
#ifndef MOVE
#define MOVE 1
#endif
    for (int round = 0; round < 1 + MOVE; round++) {
        double x0 = 40 + ox, y0 = 40 + oy;
        if (round == 1) {
            double mx = verif_coord(-15, 15), my = verif_coord(-15, 15);
            router->moveShape(S, mx, my);
            router->processTransaction();
            x0 = x0 + mx; y0 = y0 + my;
        }
        // pin positions by the documented formula on the current rectangle
        double plx = x0, ply = y0 + 0.5 * H, prx = x0 + W, pry = y0 + 0.5 * H;
        Point qpl = pl->position(), qpr = pr->position();
        CHECK(same_pt(qpl, plx, ply) & same_pt(qpr, prx, pry), "C11 pin positions follow the shape (proportional offsets on the current rectangle)");
        int usedL = 0, usedR = 0;
        for (int k = 0; k < NCONN; k++) {
            const PolyLine &r = conns[k]->displayRoute();
            verif_out_int((int)r.size());
            CHECK(r.size() >= 2, "C11 route has at least two points");
            if (r.size() < 2) continue;
            verif_out_double(r.ps[0].x); verif_out_double(r.ps[0].y);
            bool atL = same_pt(r.ps[0], plx, ply), atR = same_pt(r.ps[0], prx, pry);
            CHECK(atL | atR, "C11 a connector end attached to a pin class ends exactly at the current position of one pin of that class");
            // leaves in the pin's permitted direction
            bool leavesOK = (atL & (r.ps[1].x < r.ps[0].x) & (r.ps[1].y == r.ps[0].y)) | (atR & (r.ps[1].x > r.ps[0].x) & (r.ps[1].y == r.ps[0].y));
            CHECK(leavesOK, MSG_DIR);
            CHECK(same_pt(r.ps[r.size() - 1], fx[k], fy[k]), "C11 the free end stays at its point");
            if (atL) usedL++; if (atR) usedR++;
        }
        if (EXCL) CHECK(usedL <= 1 && usedR <= 1, "C11 no exclusive pin is used by more than one connector");
    }
#elif PART == 1
    double x0 = verif_coord(-50, 50), y0 = verif_coord(-50, 50), W = verif_coord(2, 40), H = verif_coord(2, 40);
    Rectangle rect(Point(x0, y0), Point(x0 + W, y0 + H));
    ShapeRef *S = new ShapeRef(router, rect);
    double ins = verif_coord(0, 1);
    static const double PO[3] = {0.0, 0.5, 1.0};
    for (int a = 0; a < 3; a++) for (int b = 0; b < 3; b++) {
        ShapeConnectionPin *p = new ShapeConnectionPin(S, 10 + 3 * a + b, PO[a], PO[b], true, ins, ConnDirNone);
        Point q = p->position();
        double ex = a == 0 ? x0 + ins : (a == 2 ? x0 + W - ins : x0 + 0.5 * W);
        double ey = b == 0 ? y0 + ins : (b == 2 ? y0 + H - ins : y0 + 0.5 * H);
        CHECK(same_pt(q, ex, ey), "C11 proportional pin position equals the documented formula");
        ConnDirFlags d = p->directions();
        unsigned exp_d = (a == 0 ? ConnDirLeft : a == 2 ? ConnDirRight : 0) | (b == 0 ? ConnDirUp : b == 2 ? ConnDirDown : 0);
        if (exp_d == 0) exp_d = ConnDirAll;
        CHECK((unsigned)d == exp_d, "C11 default pin directions follow the pin's side");
    }
    {
        double ax = verif_coord(1, 1), ay = verif_coord(1, 1);      // absolute offsets strictly inside
        ShapeConnectionPin *p = new ShapeConnectionPin(S, 30, ax, ay, false, 0.0, ConnDirNone);
        Point q = p->position();
        CHECK(same_pt(q, x0 + ax, y0 + ay) | (ax == W) | (ay == H), "C11 absolute pin position equals min corner plus offset");
        ShapeConnectionPin *pm = new ShapeConnectionPin(S, 31, ATTACH_POS_MAX_OFFSET, ATTACH_POS_MIN_OFFSET, false, ins, ConnDirNone);
        Point qm = pm->position();
        CHECK(same_pt(qm, x0 + W - ins, y0 + ins), "C11 absolute MIN/MAX offsets sit on the shape's edges (minus the inside offset)");
    }
    // (no transaction: this part is about the position kernel; the router is destroyed with the additions still queued)
#else
    // PART 2: free point -> checkpoint -> free point      PART 3: free point -> junction (no checkpoint)
    // PART 4: free point -> checkpoint -> junction (separate message: known finding, see known_findings.txt)
    double jx = verif_coord(100, 120), jy = verif_coord(40, 60);
#if PART != 2
    JunctionRef *J = new JunctionRef(router, Point(jx, jy));
#endif
    Rectangle rect(Point(40, 20), Point(60, 80));
    new ShapeRef(router, rect);
    double sx = verif_coord(0, 10), sy = verif_coord(40, 60);
    double cx = verif_coord(45, 55), cy = verif_coord(90, 100);
#if PART == 2
    ConnRef *conn = new ConnRef(router, ConnEnd(Point(sx, sy)), ConnEnd(Point(jx, jy)));
#else
    ConnRef *conn = new ConnRef(router, ConnEnd(Point(sx, sy)), ConnEnd(J));
#endif
#if PART != 3
    std::vector<Checkpoint> cps; cps.push_back(Checkpoint(Point(cx, cy)));
    conn->setRoutingCheckpoints(cps);
#endif
    router->processTransaction();
    const PolyLine &r = conn->displayRoute();
    verif_out_int((int)r.size());
    CHECK(r.size() >= 2, "C11 route has at least two points");
    if (r.size() >= 2) {
        CHECK(same_pt(r.ps[0], sx, sy), "C11 the free end stays at its point");
#if PART == 2
        CHECK(same_pt(r.ps[r.size() - 1], jx, jy), "C11 the free end stays at its point");
#else
        CHECK(same_pt(r.ps[r.size() - 1], jx, jy), "C11 an end attached to a junction ends at the junction's position");
#endif
#if PART != 3
        for (int which = 0; which < 2; which++) {
            const PolyLine &rr = which ? conn->route() : r;
            bool visits = false;
            for (size_t i = 1; i < rr.size(); i++) {
                const Point &p = rr.ps[i - 1], &q = rr.ps[i];
                bool onh = (p.y == q.y) & (cy == p.y) & (((p.x <= cx) & (cx <= q.x)) | ((q.x <= cx) & (cx <= p.x)));
                bool onv = (p.x == q.x) & (cx == p.x) & (((p.y <= cy) & (cy <= q.y)) | ((q.y <= cy) & (cy <= p.y)));
                visits = visits | onh | onv;
            }
#if PART == 4
            if (which == 0) CHECK(visits, "C11 a connector with a checkpoint passes through it [displayed route of a junction-attached connector]");
            else CHECK(visits, "C11 a connector with a checkpoint passes through it");
#else
            CHECK(visits, "C11 a connector with a checkpoint passes through it");
#endif
        }
#endif
        VBox bx = {40, 20, 60, 80};
        for (size_t i = 1; i < r.size(); i++) CHECK(!hits_interior(bx, r.ps[i - 1].x, r.ps[i - 1].y, r.ps[i].x, r.ps[i].y), "C11 the route still avoids shapes");
    }
#endif
    WITNESS_POINT();
    delete router;
}
