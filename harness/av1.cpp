#include "../h/verif.h"
#include "libavoid/libavoid.h"
using namespace Avoid;
extern "C" void harness(void) {
    Router *router = new Router(OrthogonalRouting);
    router->setRoutingParameter(segmentPenalty, 50);
    Rectangle rect(Point(20, 20), Point(60, 60));
    ShapeRef *shape = new ShapeRef(router, rect);
#ifdef SYM
    double sx = (double)verif_int_in(0, 15), sy = (double)verif_int_in(30, 50);
#else
    double sx = 5, sy = 40;
#endif
    ConnEnd src(Point(sx, sy)); ConnEnd dst(Point(80, 40));
    ConnRef *conn = new ConnRef(router, src, dst);
    router->processTransaction();
    const PolyLine &route = conn->displayRoute();
    verif_out_int((int)route.size());
    for (size_t i = 0; i < route.size(); i++) { verif_out_double(route.ps[i].x); verif_out_double(route.ps[i].y); }
    for (size_t i = 1; i < route.size(); i++) {
        CHECK(route.ps[i-1].x == route.ps[i].x || route.ps[i-1].y == route.ps[i].y, "C05 segment is axis-parallel");
    }
    delete router;
}
