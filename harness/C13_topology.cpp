// C13: libtopology -- layout steps never pull an edge through a node.  The real topology::TopologyConstraints on three
// rectangles and one edge from node 0's centre to node 1's centre (as libtopology/tests/simple_bend drives it);
// node MOVER gets a SYMBOLIC desired position in the chosen axis, covering moves across the edge (a bend appears around
// the mover's corner), away from it, and ties.  After solve(): no segment of the edge passes through the interior of the
// third node, no two nodes overlap, the path still starts/ends at its original nodes, every bend sits on a corner of a node.
//   -DCONF=1..3 initial configuration   -DAXIS=0 horizontal / 1 vertical   -DMOVER=node index
#include "verif.h"
#include <vector>
#include "libvpsc/rectangle.h"
#include "libvpsc/variable.h"
#include "libvpsc/constraint.h"
#include "libtopology/topology_graph.h"
#include "libtopology/topology_constraints.h"
using namespace topology;
#ifndef CONF
#define CONF 1
#endif
#ifndef AXIS
#define AXIS 0
#endif
#ifndef MOVER
#define MOVER 2
#endif
static topology::Node *addNode(Nodes &vs, double x, double y, double w, double h) {
    vpsc::Rectangle *r = new vpsc::Rectangle(x, x + w, y, y + h);
    topology::Node *v = new topology::Node(vs.size(), r, new vpsc::Variable(vs.size()));
    vs.push_back(v); return v;
}
// closed segment p-q passes through the open interior of rectangle r ?  (general position: exact test via clipping signs)
static bool seg_hits_rect(double px, double py, double qx, double qy, double x0, double y0, double x1, double y1) {
    // Liang-Barsky on the open rectangle, written branch-free with cross-multiplication (no division):
    // exists t in (0,1) with x0 < px + t dx < x1 and y0 < py + t dy < y1
    double dx = qx - px, dy = qy - py;
    // parameter interval for x: t in (lo_x, hi_x) where bounds are (x0-px)/dx, (x1-px)/dx ordered by sign of dx
    // compare fractions a/b < c/d by sign-aware cross multiplication; handle dx == 0 / dy == 0 separately
    bool xin0 = (px > x0) & (px < x1), yin0 = (py > y0) & (py < y1);
    bool xin1 = (qx > x0) & (qx < x1), yin1 = (qy > y0) & (qy < y1);
    bool endpoint_inside = (xin0 & yin0) | (xin1 & yin1);
    // midpoint tests of the four clipped candidates are replaced by: the segment crosses two opposite/adjacent open sides'
    // supporting lines inside the rectangle; sufficient exact criterion for convex region: the segment intersects the open
    // rectangle iff it separates no pair of ... (use the standard separating-axis test for a segment vs an open box)
    bool boxes = ((px < x1) | (qx < x1)) & ((px > x0) | (qx > x0)) & ((py < y1) | (qy < y1)) & ((py > y0) | (qy > y0));
    // the segment's line separates the box's corners strictly, or touches: all four corners on one closed side => no hit
    double c1 = dx * (y0 - py) - dy * (x0 - px), c2 = dx * (y0 - py) - dy * (x1 - px), c3 = dx * (y1 - py) - dy * (x0 - px), c4 = dx * (y1 - py) - dy * (x1 - px);
    bool allpos = (c1 >= 0) & (c2 >= 0) & (c3 >= 0) & (c4 >= 0), allneg = (c1 <= 0) & (c2 <= 0) & (c3 <= 0) & (c4 <= 0);
    (void)endpoint_inside;
    return boxes & !allpos & !allneg;
}
extern "C" void harness(void) {
    Nodes nodes;
#if CONF == 1
    addNode(nodes, 0, 0, 54, 34); addNode(nodes, 100, 100, 54, 34); addNode(nodes, 100, 50, 54, 34);      // simple_bend test3
#elif CONF == 2
    addNode(nodes, 0, 0, 54, 34); addNode(nodes, 100, 100, 54, 34); addNode(nodes, 0, 50, 54, 34);        // simple_bend test2
#else
    addNode(nodes, 0, 0, 20, 20); addNode(nodes, 100, 0, 20, 20); addNode(nodes, 50, 30, 20, 20);         // mover below a horizontal edge
#endif
    EdgePoints ps;
    ps.push_back(new EdgePoint(nodes[0], EdgePoint::CENTRE));
    ps.push_back(new EdgePoint(nodes[1], EdgePoint::CENTRE));
    Edges es; es.push_back(new Edge(0, 210, ps));
    vpsc::Variables vs; getVariables(nodes, vs);
    vpsc::Constraints cs;
    const vpsc::Dim dim = AXIS == 0 ? vpsc::HORIZONTAL : vpsc::VERTICAL;
    double want = verif_coord(-80, 200);
    {
        TopologyConstraints t(dim, nodes, es, nullptr, vs, cs);
        for (size_t i = 0; i < nodes.size(); i++) vs[i]->desiredPosition = nodes[i]->rect->getCentreD(dim);
        vs[MOVER]->desiredPosition = want;
        bool again = true; int rounds = 0;
        while (again && rounds < 10) { again = t.solve(); rounds++; }
        verif_out_int(rounds);
        for (size_t i = 0; i < nodes.size(); i++) { verif_out_double(nodes[i]->rect->getCentreX()); verif_out_double(nodes[i]->rect->getCentreY()); }
        // --- obligations (oracle code below is branch-free; inexact comparisons become may/must pairs)
        verif_band_nofork(1);
        ConstEdgePoints path; es[0]->getPath(path);
        verif_out_int((int)path.size());
        CHECK(path.size() >= 2, "C13 the edge path has at least its two end points");
        if (path.size() >= 2) {
            CHECK(path.front()->node == nodes[0] && path.back()->node == nodes[1], "C13 the edge path still starts and ends at its original nodes");
            CHECK(path.front()->rectIntersect == EdgePoint::CENTRE && path.back()->rectIntersect == EdgePoint::CENTRE, "C13 path ends are attached to node centres");
            for (size_t k = 1; k + 1 < path.size(); k++) CHECK(path[k]->rectIntersect != EdgePoint::CENTRE, "C13 every bend of a path sits on a corner of a node");
            for (size_t k = 1; k < path.size(); k++) {
                double px = path[k - 1]->posX(), py = path[k - 1]->posY(), qx = path[k]->posX(), qy = path[k]->posY();
                for (size_t n = 0; n < nodes.size(); n++) {
                    if (nodes[n] == nodes[0] || nodes[n] == nodes[1]) continue;       // the edge's own end nodes
                    if (path[k - 1]->node == nodes[n] || path[k]->node == nodes[n]) {
                        // a segment ending on a corner of this node: it may touch the corner, never cross the interior
                    }
                    vpsc::Rectangle *r = nodes[n]->rect;
                    // tolerance: the segment must not reach 0.01 deep into the node (bend points sit on corners up to rounding)
                    CHECK(!seg_hits_rect(px, py, qx, qy, r->getMinX() + 0.01, r->getMinY() + 0.01, r->getMaxX() - 0.01, r->getMaxY() - 0.01), "C13 no segment of an edge path passes through the interior of another node");
                }
            }
        }
        for (size_t i = 0; i < nodes.size(); i++) for (size_t j = i + 1; j < nodes.size(); j++) {
            vpsc::Rectangle *a = nodes[i]->rect, *b = nodes[j]->rect;
            bool ov = (a->getMaxX() - b->getMinX() > 1e-6) & (b->getMaxX() - a->getMinX() > 1e-6) & (a->getMaxY() - b->getMinY() > 1e-6) & (b->getMaxY() - a->getMinY() > 1e-6);
            CHECK(!ov, "C13 no two node rectangles overlap");
        }
    }
    verif_band_nofork(0);
    WITNESS_POINT();
    for (size_t i = 0; i < nodes.size(); i++) { delete nodes[i]->rect; delete nodes[i]; }
    for (size_t i = 0; i < vs.size(); i++) delete vs[i];
    for (size_t i = 0; i < cs.size(); i++) delete cs[i];
    for (size_t i = 0; i < es.size(); i++) delete es[i];
}
