#include "../h/verif.h"
#include "libdialect/commontypes.h"
#include "libdialect/graphs.h"
#include "libdialect/peeling.h"
#include "libdialect/trees.h"
using namespace dialect;
#ifndef NN
#define NN 4
#endif
extern "C" void harness(void) {
    Graph g;
    std::vector<Node_SP> ns;
    for (int i = 0; i < NN; i++) { Node_SP n = Node::allocate(10, 10); g.addNode(n); ns.push_back(n); }
    int ne = 0;
    for (int i = 0; i < NN; i++) for (int j = i + 1; j < NN; j++) {
        if (verif_int_in(0, 1)) { g.addEdge(Edge::allocate(ns[i], ns[j])); ne++; }
    }
    unsigned n0 = g.getNumNodes();
    Trees trees = peel(g);
    unsigned total = g.getNumNodes();
    for (Tree_SP t : trees) total += t->underlyingGraph()->getNumNodes() - 1;
    verif_out_int((int)trees.size()); verif_out_int((int)g.getNumNodes());
    // a non-empty core has no degree-1 node
    for (auto p : g.getNodeLookup()) CHECK(g.getNumNodes() == 1 || p.second->getDegree() != 1, "C19 core has no leaf");
}
