// C03 (polyline, visibility layer): every visibility edge the router keeps is obstacle-free -- so every polyline route, which
// is a path in this graph, avoids obstacles -- also for TOUCHING shapes and INCREMENTAL additions.  Real PolyLineRouting
// Router (naive visibility): shapes A and B, then a wall W between them is added in a second transaction
// (Router::newBlockingShape must invalidate the existing edges it blocks).  W's left and right sides are symbolic:
// x in [20, 20+SL] and [40-SR, 40], so W touches A and/or B exactly at the branch boundaries the solver enumerates.
// No connector is routed: edge lengths (sqrt of symbolic values) are stored but never compared.
//   -DONESHOT: all three shapes in one transaction      -DMOVEIN: W is first added far away, then moved into the gap
#include "verif.h"
#include "libavoid/libavoid.h"
using namespace Avoid;
#ifndef SL
#define SL 2
#endif
#ifndef SR
#define SR 2
#endif
struct VB { double x0, y0, x1, y1; };
static bool seg_hits_rect(double px, double py, double qx, double qy, const VB &b) {
    double dx = qx - px, dy = qy - py;
    bool boxes = ((px < b.x1) | (qx < b.x1)) & ((px > b.x0) | (qx > b.x0)) & ((py < b.y1) | (qy < b.y1)) & ((py > b.y0) | (qy > b.y0));
    double c1 = dx * (b.y0 - py) - dy * (b.x0 - px), c2 = dx * (b.y0 - py) - dy * (b.x1 - px), c3 = dx * (b.y1 - py) - dy * (b.x0 - px), c4 = dx * (b.y1 - py) - dy * (b.x1 - px);
    bool allpos = (c1 >= 0) & (c2 >= 0) & (c3 >= 0) & (c4 >= 0), allneg = (c1 <= 0) & (c2 <= 0) & (c3 <= 0) & (c4 <= 0);
    return boxes & !allpos & !allneg;
}
static int check_graph(Router *router, const VB *bs, int nb) {
    int nvis = 0;
    for (EdgeInf *e = router->visGraph.begin(); e != router->visGraph.end(); e = e->lstNext) {
        if (e->getDist() == 0) continue;                      // not (yet) known to be visible
        std::pair<Point, Point> pq = e->points();
        nvis++;
        for (int k = 0; k < nb; k++)
            CHECK(!seg_hits_rect(pq.first.x, pq.first.y, pq.second.x, pq.second.y, bs[k]), "C03 every visibility edge kept by the router is obstacle-free");
    }
    return nvis;
}
extern "C" void harness(void) {
    Router *router = new Router(PolyLineRouting);
    router->setRoutingParameter(segmentPenalty, 0); router->setRoutingParameter(anglePenalty, 0);
    router->UseLeesAlgorithm = false;
    double wl = verif_coord(20, 20 + SL); double wr = verif_coord(40 - SR, 40);
    VB bs[3] = {{0, 0, 20, 40}, {40, 20, 60, 60}, {wl, -30, wr, 90}};
    ShapeRef *W = 0;
    for (int k = 0; k < 2; k++) { Rectangle rc(Point(bs[k].x0, bs[k].y0), Point(bs[k].x1, bs[k].y1)); new ShapeRef(router, rc); }
#ifdef ONESHOT
    { Rectangle rc(Point(bs[2].x0, bs[2].y0), Point(bs[2].x1, bs[2].y1)); W = new ShapeRef(router, rc); }
    router->processTransaction();
#elif defined(MOVEIN)
    { Rectangle rc(Point(bs[2].x0 + 200, bs[2].y0), Point(bs[2].x1 + 200, bs[2].y1)); W = new ShapeRef(router, rc); }
    router->processTransaction();
    router->moveShape(W, -200, 0);
    router->processTransaction();
#else
    router->processTransaction();
    verif_out_int(check_graph(router, bs, 2));
    { Rectangle rc(Point(bs[2].x0, bs[2].y0), Point(bs[2].x1, bs[2].y1)); W = new ShapeRef(router, rc); }
    router->processTransaction();
#endif
    verif_out_int(check_graph(router, bs, 3));
    WITNESS_POINT();
    delete router;
}
