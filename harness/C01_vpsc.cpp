// C01 / C02 / C20(d): libvpsc Solver / IncSolver end to end (real solve_VPSC.cpp, block.cpp, blocks.cpp, ...).
//   -DNV=n -DNC=m        sizes
//   -DMODE=0 IncSolver::satisfy | 1 IncSolver::solve | 2 Solver::satisfy | 3 Solver::solve
//   -DSTRUCT_L=.. -DSTRUCT_R=..   fixed structure (otherwise every (left,right) is a symbolic choice)
//   -DEQMASK=k           bit j set: constraint j is an equality     (-DEQSYM: symbolic choice per constraint)
//   -DWEIGHTS=..,-DSCALES=..  comma lists (concrete menus)
//   -DHISTORY=1          after the first run: move desired positions (symbolic) and re-solve
//   -DHISTORY=2          after the first run: addConstraint (symbolic) on the live solver and re-solve
//   -DKKT                check optimality certificate (C02), -DPERMUTE  check order independence (C02/C20)
//   -DAVOID_COPY         use Avoid::IncSolver from libavoid/vpsc.cpp instead of libvpsc
//   -DNONINT             desired positions are arbitrary doubles (inexact arithmetic) instead of integers
#include "verif.h"
#ifdef AVOID_COPY
#include "libavoid/vpsc.h"          // libavoid's private copy of the incremental solver (used by nudging)
#else
#include "libvpsc/variable.h"
#include "libvpsc/constraint.h"
#include "libvpsc/solve_VPSC.h"
#include "libvpsc/exceptions.h"
#endif
#ifndef NV
#define NV 3
#endif
#ifndef NC
#define NC 2
#endif
#ifndef MODE
#define MODE 0
#endif
#ifndef EQMASK
#define EQMASK 0
#endif
#ifndef HISTORY
#define HISTORY 0
#endif
#define MAXC (NC + 1)
#ifdef AVOID_COPY
using namespace Avoid;
typedef IncSolver SolverBase;
#else
using namespace vpsc;
typedef Solver SolverBase;
#endif

#ifdef WEIGHTS
static const double WS[] = {WEIGHTS};
#endif
#ifdef SCALES
static const double SS[] = {SCALES};
#endif
#ifdef STRUCT_L
static const unsigned LS[] = {STRUCT_L}, RS[] = {STRUCT_R};
#endif

static double in_pos(void) {
#ifdef NONINT
    return verif_double_in(-4.0, 4.0);
#else
    return verif_coord(-4, 4);
#endif
}
static double in_gap(void) {
#ifdef NONINT
    return verif_double_in(-2.0, 3.0);
#else
    return verif_coord(-2, 3);
#endif
}

struct Prob {
    int n, m;
    unsigned l[MAXC], r[MAXC];
    double gap[MAXC];
    bool eq[MAXC];
    double d[NV], w[NV], sc[NV];
};

// exists a simple directed cycle (over distinct constraints, through distinct variables) with positive total gap?
// evaluated without branching on the symbolic gaps (bitwise |), structure is concrete on every path.
static bool pos_cycle_from(const Prob &P, int start, int cur, unsigned usedv, unsigned usedc, double sum) {
    bool r = false;
    for (int j = 0; j < P.m; j++) {
        if ((usedc >> j) & 1) continue;
        if ((int)P.l[j] != cur) continue;
        int nx = (int)P.r[j];
        double s2 = sum + P.gap[j];
        if (nx == start) { r = r | (s2 > 0); continue; }
        if ((usedv >> nx) & 1) continue;
        r = r | pos_cycle_from(P, start, nx, usedv | (1u << nx), usedc | (1u << j), s2);
    }
    return r;
}
static bool has_positive_cycle(const Prob &P) {
    bool r = false;
    for (int s = 0; s < P.n; s++) r = r | pos_cycle_from(P, s, s, 1u << s, 0, 0.0);
    return r;
}

static double lhs(const Prob &P, int j, const double *x) { return P.sc[P.l[j]] * x[P.l[j]] + P.gap[j]; }
static double rhs(const Prob &P, int j, const double *x) { return P.sc[P.r[j]] * x[P.r[j]]; }

// obligations of C01 on one solver result
static void check_feasible(const Prob &P, Constraints &cs, Variables &vs, bool threw, const char *tag) {
    (void)tag;
    CHECK(!threw, "C01 solver returned without throwing");
    if (threw) return;
    double x[NV];
    for (int i = 0; i < P.n; i++) x[i] = vs[i]->finalPosition;
    bool anyflag = false, anyeq = false;
    for (int j = 0; j < P.m; j++) {
        Constraint *c = cs[j];
        anyflag = anyflag | c->unsatisfiable;
        anyeq = anyeq | P.eq[j];
        if (c->unsatisfiable) continue;
        if (P.eq[j]) {
            double df = lhs(P, j, x) - rhs(P, j, x);
            CHECK(df <= 1e-6 && df >= -1e-6, "C01 unflagged equality holds to 1e-6");
        } else {
            CHECK(lhs(P, j, x) <= rhs(P, j, x) + 1e-6, "C01 unflagged inequality holds to 1e-6");
        }
    }
    if (!anyeq) {
        bool inf = has_positive_cycle(P);
        if (anyflag) CHECK(inf, "C01 a constraint is flagged unsatisfiable only if the system has a positive-gap cycle");
        else CHECK(!inf, "C01 an infeasible system (positive-gap cycle) gets a flagged constraint");
    }
}

#ifdef KKT
// C02: optimality certificate.  The solver's final active set is only a *hint*: we verify that the active
// constraints are tight and form a forest, derive the unique multipliers by leaf elimination from the
// stationarity equations  2 w_i (x_i - d_i) + sum_{c: left=i} lm_c s_i - sum_{c: right=i} lm_c s_i = 0,
// and check dual feasibility.  KKT + strict convexity  =>  x is the unique optimum.
static void check_kkt(const Prob &P, Constraints &cs, Variables &vs) {
    double x[NV], g[NV];
    for (int i = 0; i < P.n; i++) { x[i] = vs[i]->finalPosition; g[i] = 2.0 * P.w[i] * (x[i] - P.d[i]); }
    for (int j = 0; j < P.m; j++) if (cs[j]->unsatisfiable) return;   // property speaks about feasible instances
    bool act[MAXC]; int deg[NV];
    for (int i = 0; i < P.n; i++) deg[i] = 0;
    for (int j = 0; j < P.m; j++) {
        act[j] = cs[j]->active;
        if (act[j]) {
            double df = lhs(P, j, x) - rhs(P, j, x);
            CHECK(df <= 1e-7 && df >= -1e-7, "C02 active constraint is tight");
            deg[P.l[j]]++; deg[P.r[j]]++;
        }
    }
    // leaf elimination: a variable with exactly one remaining active constraint determines its multiplier
    int remaining = 0;
    for (int j = 0; j < P.m; j++) remaining += act[j] ? 1 : 0;
    for (int round = 0; round < MAXC && remaining > 0; round++) {
        bool progress = false;
        for (int i = 0; i < P.n; i++) {
            if (deg[i] != 1) continue;
            for (int j = 0; j < P.m; j++) {
                if (!act[j] || ((int)P.l[j] != i && (int)P.r[j] != i)) continue;
                // stationarity at i:  g_i/s_i + lm = 0 if i is left,  g_i/s_i - lm = 0 if i is right
                double lm; int other;
                if ((int)P.l[j] == i) { lm = -g[i] / P.sc[i]; other = (int)P.r[j]; g[other] = g[other] - lm * P.sc[other]; }
                else { lm = g[i] / P.sc[i]; other = (int)P.l[j]; g[other] = g[other] + lm * P.sc[other]; }
                g[i] = 0;
                if (!P.eq[j]) CHECK(lm >= -2e-4, "C02 multiplier of an active inequality is non-negative (dual feasible)");
                act[j] = false; deg[i]--; deg[other]--; remaining--; progress = true;
                break;
            }
        }
        if (!progress) break;
    }
    CHECK(remaining == 0, "C02 active constraints form a forest");
    for (int i = 0; i < P.n; i++) CHECK(g[i] <= 1e-5 && g[i] >= -1e-5, "C02 stationarity residual is zero");
}
#endif

struct Inst {
    Variables vs; Constraints cs; SolverBase *s; IncSolver *inc;
    Inst() : s(0), inc(0) {}
    void build(const Prob &P, bool reversed) {
        for (int i = 0; i < P.n; i++) { int k = reversed ? P.n - 1 - i : i; vs.push_back(new Variable(i, P.d[k], P.w[k], P.sc[k])); }
        for (int j = 0; j < P.m; j++) {
            int k = reversed ? P.m - 1 - j : j;
            unsigned l = reversed ? P.n - 1 - P.l[k] : P.l[k], r = reversed ? P.n - 1 - P.r[k] : P.r[k];
            cs.push_back(new Constraint(vs[l], vs[r], P.gap[k], P.eq[k]));
        }
#if MODE <= 1
        inc = new IncSolver(vs, cs); s = inc;
#else
        s = new SolverBase(vs, cs);
#endif
    }
    bool run() {
        bool threw = false;
        try {
#if MODE == 0 || MODE == 2
            s->satisfy();
#else
            s->solve();
#endif
        } catch (...) { threw = true; }
        return threw;
    }
    ~Inst() {
        delete s;
        for (size_t j = 0; j < cs.size(); j++) delete cs[j];
        for (size_t i = 0; i < vs.size(); i++) delete vs[i];
    }
};

extern "C" void harness(void) {
    Prob P; P.n = NV; P.m = NC;
    for (int i = 0; i < NV; i++) {
        P.d[i] = in_pos();
#ifdef WEIGHTS
        P.w[i] = WS[i];
#else
        P.w[i] = 1.0;
#endif
#ifdef SCALES
        P.sc[i] = SS[i];
#else
        P.sc[i] = 1.0;
#endif
    }
    for (int j = 0; j < NC; j++) {
#ifdef STRUCT_L
        P.l[j] = LS[j]; P.r[j] = RS[j];
#else
        P.l[j] = (unsigned)verif_choice(NV);
        // right != left : a constraint relates two distinct variables
        unsigned r = (unsigned)verif_choice(NV - 1); P.r[j] = r >= P.l[j] ? r + 1 : r;
#endif
        P.gap[j] = in_gap();
#ifdef EQSYM
        P.eq[j] = verif_choice(2) == 1;
#else
        P.eq[j] = ((EQMASK >> j) & 1) != 0;
#endif
    }
#if MODE >= 2
    // the static Solver's documented domain: acyclic constraint graphs (it processes a topological order)
    {
        bool reach[NV][NV];
        for (int a = 0; a < NV; a++) for (int b = 0; b < NV; b++) reach[a][b] = false;
        for (int j = 0; j < NC; j++) reach[P.l[j]][P.r[j]] = true;
        for (int k = 0; k < NV; k++) for (int a = 0; a < NV; a++) for (int b = 0; b < NV; b++)
            if (reach[a][k] && reach[k][b]) reach[a][b] = true;
        for (int a = 0; a < NV; a++) ASSUME(!reach[a][a]);
    }
#endif
    {
        Inst I; I.build(P, false);
        bool threw = I.run();
        for (int j = 0; j < P.m; j++) verif_out_int(I.cs[j]->unsatisfiable ? 1 : 0);
        for (int i = 0; i < P.n; i++) verif_out_double(I.vs[i]->finalPosition);
        check_feasible(P, I.cs, I.vs, threw, "first");
#ifdef KKT
        if (!threw) check_kkt(P, I.cs, I.vs);
#endif
#ifdef PERMUTE
        {
            bool any = false;
            for (int j = 0; j < P.m; j++) any = any | I.cs[j]->unsatisfiable;
            Inst J; J.build(P, true);
            bool threw2 = J.run();
            CHECK(!threw2, "C02 permuted instance returned without throwing");
            bool any2 = false;
            for (int j = 0; j < P.m; j++) any2 = any2 | J.cs[j]->unsatisfiable;
            if (!threw && !threw2 && !any && !any2) for (int i = 0; i < P.n; i++) {
                double a = I.vs[i]->finalPosition, b = J.vs[P.n - 1 - i]->finalPosition;
                CHECK(a - b <= 1e-6 && b - a <= 1e-6, "C02 optimum independent of variable/constraint order");
            }
        }
#endif
#if HISTORY == 1 && MODE <= 1
        // move desired positions on the live solver, re-solve (what gradient projection / nudging do)
        for (int i = 0; i < P.n; i++) { P.d[i] = in_pos(); I.vs[i]->desiredPosition = P.d[i]; }
        threw = I.run();
        for (int i = 0; i < P.n; i++) verif_out_double(I.vs[i]->finalPosition);
        check_feasible(P, I.cs, I.vs, threw, "re-solve");
#ifdef KKT
        if (!threw) check_kkt(P, I.cs, I.vs);
#endif
#endif
#if HISTORY == 2 && MODE <= 1
        {
            unsigned l = (unsigned)verif_choice(NV), r0 = (unsigned)verif_choice(NV - 1), r = r0 >= l ? r0 + 1 : r0;
            P.l[P.m] = l; P.r[P.m] = r; P.gap[P.m] = in_gap(); P.eq[P.m] = false;
            Constraint *c = new Constraint(I.vs[l], I.vs[r], P.gap[P.m], false);
            I.cs.push_back(c); P.m++;
            I.inc->addConstraint(c);
            threw = I.run();
            for (int i = 0; i < P.n; i++) verif_out_double(I.vs[i]->finalPosition);
            check_feasible(P, I.cs, I.vs, threw, "after addConstraint");
#ifdef KKT
            if (!threw) check_kkt(P, I.cs, I.vs);
#endif
        }
#endif
        WITNESS_POINT();
    }
}
