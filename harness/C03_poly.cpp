// C03 (polyline): routes avoid obstacles also when shapes TOUCH and are added incrementally.  Real PolyLineRouting Router
// (naive visibility: UseLeesAlgorithm off, penalties 0): shapes A and B with a gap that a third shape W fills exactly
// (zero gaps on both sides); W is added in a SECOND transaction (or with A and B, -DONESHOT), i.e. existing visibility
// edges must be invalidated by Router::newBlockingShape.  Connector endpoints are symbolic integer points.
#include "verif.h"
#include <cmath>
#include "libavoid/libavoid.h"
using namespace Avoid;
struct VB { double x0, y0, x1, y1; };
static bool seg_hits_rect(double px, double py, double qx, double qy, const VB &b) {
    double dx = qx - px, dy = qy - py;
    bool boxes = ((px < b.x1) | (qx < b.x1)) & ((px > b.x0) | (qx > b.x0)) & ((py < b.y1) | (qy < b.y1)) & ((py > b.y0) | (qy > b.y0));
    double c1 = dx * (b.y0 - py) - dy * (b.x0 - px), c2 = dx * (b.y0 - py) - dy * (b.x1 - px), c3 = dx * (b.y1 - py) - dy * (b.x0 - px), c4 = dx * (b.y1 - py) - dy * (b.x1 - px);
    bool allpos = (c1 >= 0) & (c2 >= 0) & (c3 >= 0) & (c4 >= 0), allneg = (c1 <= 0) & (c2 <= 0) & (c3 <= 0) & (c4 <= 0);
    return boxes & !allpos & !allneg;
}
static void check_route(const PolyLine &r, double sx, double sy, double dx, double dy, const VB *bs, int nb) {
    CHECK(r.size() >= 2, "C03 route has at least two points");
    if (r.size() < 2) return;
    CHECK((r.ps[0].x == sx) & (r.ps[0].y == sy) & (r.ps[r.size() - 1].x == dx) & (r.ps[r.size() - 1].y == dy), "C03 route joins its two endpoints");
    for (size_t i = 1; i < r.size(); i++) for (int k = 0; k < nb; k++)
        CHECK(!seg_hits_rect(r.ps[i - 1].x, r.ps[i - 1].y, r.ps[i].x, r.ps[i].y, bs[k]), "C03 no polyline segment passes through a shape interior");
}
extern "C" void harness(void) {
    Router *router = new Router(PolyLineRouting);
    router->setRoutingParameter(segmentPenalty, 0); router->setRoutingParameter(anglePenalty, 0);
    router->UseLeesAlgorithm = false;
    VB bs[3] = {{0, 0, 20, 40}, {40, 20, 60, 60}, {20, -30, 40, 90}};      // A, B, W (W fills the gap between A and B exactly)
    for (int k = 0; k < 2; k++) { Rectangle rc(Point(bs[k].x0, bs[k].y0), Point(bs[k].x1, bs[k].y1)); new ShapeRef(router, rc); }
#ifdef ONESHOT
    { Rectangle rc(Point(bs[2].x0, bs[2].y0), Point(bs[2].x1, bs[2].y1)); new ShapeRef(router, rc); }
#endif
    double sx = verif_coord(-24, -16); double sy = -20; double dx = 70; double dy = 70;     // one symbolic coordinate: lengths are sqrt terms (nonlinear)
    ConnRef *conn = new ConnRef(router, ConnEnd(Point(sx, sy)), ConnEnd(Point(dx, dy)));
    router->processTransaction();
    {
        const PolyLine &r = conn->displayRoute();
        verif_out_int((int)r.size());
#ifdef ONESHOT
        check_route(r, sx, sy, dx, dy, bs, 3);
#else
        check_route(r, sx, sy, dx, dy, bs, 2);
#endif
    }
#ifndef ONESHOT
    { Rectangle rc(Point(bs[2].x0, bs[2].y0), Point(bs[2].x1, bs[2].y1)); new ShapeRef(router, rc); }
    router->processTransaction();
    {
        const PolyLine &r = conn->displayRoute();
        verif_out_int((int)r.size());
        for (size_t i = 0; i < r.size(); i++) { verif_out_double(r.ps[i].x); verif_out_double(r.ps[i].y); }
        check_route(r, sx, sy, dx, dy, bs, 3);
    }
#endif
    WITNESS_POINT();
    delete router;
}
