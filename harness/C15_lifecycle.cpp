// C15: memory safety / UB / assertions / termination / leaks on valid API use -- dedicated lifecycle histories.
// (The executor's monitors -- bounds, use-after-free, double free, uninitialised reads, division by zero, library
// assertions, uncaught exceptions, step budget, leak at exit -- also run on every path of every other harness.)
//   -DSUBJECT=1  Avoid::Router: a history of NSTEPS operations drawn by verif_choice from
//        0 processTransaction   1 add shape B   2 move shape A (symbolic offset)   3 delete shape A (pin in use by the connector)
//        4 delete the connector   5 add a second connector (A's pin class -> free point)   6 move connector endpoint
//      then the router is destroyed, possibly with actions still queued.  TRANS=0: transactions off (immediate mode).
//   -DSUBJECT=2  vpsc::IncSolver: create / addConstraint / satisfy|solve / destroy in every order of NSTEPS steps
//   -DSUBJECT=3  cola::ConstrainedFDLayout: create, optionally set constraints/overlap avoidance, optionally makeFeasible, destroy
#include "verif.h"
#ifndef SUBJECT
#define SUBJECT 1
#endif
#ifndef NSTEPS
#define NSTEPS 3
#endif
#if SUBJECT == 1
#include "libavoid/libavoid.h"
#include "libavoid/connectionpin.h"
using namespace Avoid;
#ifndef TRANS
#define TRANS 1
#endif
#ifndef RTYPE
#define RTYPE OrthogonalRouting
#endif
#ifdef ALLOW_ALIGNED
#define LEVEL_OK() ((void)0)
#else
// known finding (known_findings.txt): a pin-attached connector whose free end is exactly level with a pin trips libavoid's own
// assertion when the shape is moved; the dedicated job router-aligned-move exhibits it, the other jobs stay off that case
#define LEVEL_OK() ASSUME((pinY != endY) & (pinY != 90))
#endif
extern "C" void harness(void) {
    Router *router = new Router(RTYPE);
    router->setRoutingParameter(segmentPenalty, 50);
    router->setTransactionUse(TRANS != 0);
    Rectangle ra(Point(20, 20), Point(60, 60)), rb(Point(100, 10), Point(130, 70));
    ShapeRef *A = new ShapeRef(router, ra), *B = 0;
    new ShapeConnectionPin(A, 1, ATTACH_POS_RIGHT, ATTACH_POS_CENTRE, true, 0.0, ConnDirRight);
    new ShapeConnectionPin(A, 1, ATTACH_POS_LEFT, ATTACH_POS_CENTRE, true, 0.0, ConnDirLeft);
#ifdef CONCRETE_END
#ifndef ENDY
#define ENDY 47
#endif
    double ex = 150; double ey = ENDY;          // lifecycle histories are the subject here, not geometry (ENDY=40 is collinear with the pins: known finding)
#else
    double ex = verif_coord(140, 160); double ey = verif_coord(0, 80);
#endif
    ConnRef *c1 = new ConnRef(router, ConnEnd(A, 1), ConnEnd(Point(ex, ey))), *c2 = 0;
    bool aAlive = true, c1Alive = true, aProcessed = false;
    double pinY = 40, endY = ey;      // level of A's pins and of connector 1's free end (see LEVEL_OK below)
    // the history may start from a processed scene or from one whose additions are all still queued
#ifndef INITIAL
#define INITIAL 2
#endif
    if (INITIAL == 1 || (INITIAL == 2 && verif_choice(2))) { router->processTransaction(); aProcessed = true; }
    for (int step = 0; step < NSTEPS; step++) {
        int op = verif_choice(7);
#ifdef OPMASK
        ASSUME((OPMASK >> op) & 1);      // job-level restriction of the operation menu
#endif
        if (op == 0) { router->processTransaction(); aProcessed = true; }
        else if (op == 1) { ASSUME(B == 0); B = new ShapeRef(router, rb); }
        else if (op == 2) { ASSUME(aAlive); double mx = verif_coord(-10, 10); double my = verif_coord(-10, 10); router->moveShape(A, mx, my); pinY = pinY + my; LEVEL_OK(); }
        else if (op == 3) {
            // documented precondition: a shape is not added and deleted within one transaction
            ASSUME(aAlive && (aProcessed || TRANS == 0)); router->deleteShape(A); aAlive = false; }
        else if (op == 4) { ASSUME(c1Alive); router->deleteConnector(c1); c1Alive = false; }
        else if (op == 5) { ASSUME(aAlive && c2 == 0); c2 = new ConnRef(router, ConnEnd(A, 1), ConnEnd(Point(0, 90))); }
        else {
            ASSUME(c1Alive);
#ifdef CONCRETE_END
            double nx = 145; double ny = verif_coord(0, 80);
#else
            double nx = verif_coord(140, 160); double ny = verif_coord(0, 80);
#endif
            c1->setDestEndpoint(ConnEnd(Point(nx, ny))); endY = ny; LEVEL_OK(); }
    }
    // optionally process whatever is queued before tearing down (otherwise the router is destroyed with queued actions)
#ifndef FINAL
#define FINAL 2
#endif
    if (FINAL == 1 || (FINAL == 2 && verif_choice(2))) router->processTransaction();
    if (c1Alive) verif_out_int((int)c1->displayRoute().size());
    WITNESS_POINT();
    delete router;
}
#elif SUBJECT == 2
#include "libvpsc/variable.h"
#include "libvpsc/constraint.h"
#include "libvpsc/solve_VPSC.h"
using namespace vpsc;
extern "C" void harness(void) {
    Variables vs; Constraints cs;
    for (int i = 0; i < 3; i++) vs.push_back(new Variable(i, verif_coord(-4, 4), 1.0));
    cs.push_back(new Constraint(vs[0], vs[1], verif_coord(-2, 3)));
    IncSolver *s = new IncSolver(vs, cs);
    for (int step = 0; step < NSTEPS; step++) {
        int op = verif_choice(4);
        if (op == 0) s->satisfy();
        else if (op == 1) s->solve();
        else if (op == 2) {
            unsigned l = (unsigned)verif_choice(3), r0 = (unsigned)verif_choice(2), r = r0 >= l ? r0 + 1 : r0;
            Constraint *c = new Constraint(vs[l], vs[r], verif_coord(-2, 3)); cs.push_back(c); s->addConstraint(c);
        } else { for (int i = 0; i < 3; i++) vs[i]->desiredPosition = verif_coord(-4, 4); }
    }
    for (int i = 0; i < 3; i++) verif_out_double(vs[i]->finalPosition);
    WITNESS_POINT();
    delete s;
    for (size_t j = 0; j < cs.size(); j++) delete cs[j];
    for (int i = 0; i < 3; i++) delete vs[i];
}
#else
#include "libvpsc/rectangle.h"
#include "libcola/cola.h"
#include "libcola/compound_constraints.h"
using namespace cola;
extern "C" void harness(void) {
    vpsc::Rectangles rs;
    const int N = 2;          // two (always overlapping) rectangles: the object lifecycle is the subject, not the geometry
    for (int i = 0; i < N; i++) { double x = verif_coord(0, 8); double y = verif_coord(0, 8); rs.push_back(new vpsc::Rectangle(x - 5, x + 5, y - 3, y + 3)); }
    std::vector<Edge> es; es.push_back(Edge(0, 1));
    ConstrainedFDLayout *alg = new ConstrainedFDLayout(rs, es, 30);
    CompoundConstraints ccs;
    if (verif_choice(2)) { double g = verif_coord(0, 30); ccs.push_back(new SeparationConstraint(vpsc::XDIM, 0, 1, g, false)); alg->setConstraints(ccs); }
    if (verif_choice(2)) alg->setAvoidNodeOverlaps(true);
    UnsatisfiableConstraintInfos ux, uy;
    if (verif_choice(2)) alg->setUnsatisfiableConstraintInfo(&ux, &uy);
    if (verif_choice(2)) alg->makeFeasible();
    if (verif_choice(2)) alg->makeFeasible();          // twice is legal
    WITNESS_POINT();
    delete alg;
    for (size_t i = 0; i < ccs.size(); i++) delete ccs[i];
    for (size_t i = 0; i < ux.size(); i++) delete ux[i];
    for (size_t i = 0; i < uy.size(); i++) delete uy[i];
    for (int i = 0; i < N; i++) delete rs[i];
}
#endif
