#include "../h/verif.h"
#include "libavoid/geometry.h"
#include "libavoid/geomtypes.h"
using namespace Avoid;
#ifndef G
#define G 1048576
#endif
static long long cross(long long ax,long long ay,long long bx,long long by,long long cx,long long cy){ return (bx-ax)*(cy-ay)-(cx-ax)*(by-ay); }
static int sg(long long v){ return v<0?-1:(v>0?1:0); }
extern "C" void harness(void) {
    int ax=verif_int_in(-G,G), ay=verif_int_in(-G,G), bx=verif_int_in(-G,G), by=verif_int_in(-G,G);
    int cx=verif_int_in(-G,G), cy=verif_int_in(-G,G), dx=verif_int_in(-G,G), dy=verif_int_in(-G,G);
    Point a(ax,ay), b(bx,by), c(cx,cy), d(dx,dy);
#if WHICH==1
    int r = vecDir(a,b,c);
    CHECK(r == sg(cross(ax,ay,bx,by,cx,cy)), "vecDir equals exact orientation sign");
#elif WHICH==2
    bool r = segmentIntersect(a,b,c,d);
    int o1=sg(cross(ax,ay,bx,by,cx,cy)), o2=sg(cross(ax,ay,bx,by,dx,dy)), o3=sg(cross(cx,cy,dx,dy,ax,ay)), o4=sg(cross(cx,cy,dx,dy,bx,by));
    // exact spec: c,d strictly on opposite sides of line ab, and a,b strictly on opposite sides of cd
    bool spec = (o1*o2 < 0) && (o3*o4 < 0);
    CHECK(r == spec, "segmentIntersect equals exact proper-crossing test");
    CHECK(segmentIntersect(b,a,c,d) == r, "symmetric under reversing ab");
    CHECK(segmentIntersect(a,b,d,c) == r, "symmetric under reversing cd");
    CHECK(segmentIntersect(c,d,a,b) == r, "symmetric under swapping segments");
#elif WHICH==3
    bool r = pointOnLine(a,b,c);
    long long cr = cross(ax,ay,bx,by,cx,cy);
    long long dot1 = (long long)(cx-ax)*(bx-ax) + (long long)(cy-ay)*(by-ay);
    long long len2 = (long long)(bx-ax)*(bx-ax) + (long long)(by-ay)*(by-ay);
    bool spec = (cr==0) && dot1 > 0 && dot1 < len2;   // strictly inside the open segment
    CHECK(r == spec, "pointOnLine equals exact open-segment membership");
#endif
}
