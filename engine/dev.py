#!/usr/bin/env python3-vt
"""dev helper: run one job single-process with py-spy-like periodic stack dump on timeout"""
import sys, os, signal, traceback, time
HERE = os.path.dirname(os.path.abspath(__file__)); sys.path.insert(0, HERE); sys.path.insert(0, os.path.dirname(HERE))
import build, irsym, driver
sys.modules['driver'] = driver
import jobs as J
prop, name = sys.argv[1], sys.argv[2]
limit = float(sys.argv[3]) if len(sys.argv) > 3 else 60
job = next(j for t in ('quick', 'thorough') for j in J.JOBS[prop][t] if name in j.name)
ll = build.build_module(job.harness, job.defs, job.libs, job.exclude, libdefs=job.libdefs)
def onalarm(sig, frm):
    print('--- timeout; python stack:'); traceback.print_stack(frm, limit=12)
    M = irsym._G.get('M')
    if M is not None:
        print('IR stack:', ' <- '.join(f.fn.name for f in reversed(M.stack[-10:])))
        print('steps', M.nsteps, 'decisions', len(M.decisions), 'solver calls', M.stats.get('solver_calls'), 'solver_s', M.stats.get('solver_s'))
    os._exit(3)
signal.signal(signal.SIGALRM, onalarm); signal.alarm(int(limit))
opts = dict(relax_int=job.relax_int, max_steps=job.max_steps); opts.update(job.opts); opts['fork_sites'] = True
if os.environ.get('FIX'): opts['fixed_inputs'] = os.environ['FIX'].split(',')
R = irsym.explore(ll, opts=opts, workers=1, exe=None, max_paths=int(os.environ.get('MAXP', '50')), log=print)
print({k: (dict(v) if hasattr(v, 'items') else v) for k, v in R.items() if k not in ('called', 'samples')})
