// native replay runtime: the verif_* input primitives read successive numbers from the file named
// by VERIF_REPLAY (one per line; doubles as C99 hex floats), CHECK failures are printed, outputs are printed.
#include <stdio.h>
#include <stdlib.h>
static FILE *f;
static double nextv(void){
  char buf[128];
  if(!f){ const char*p=getenv("VERIF_REPLAY"); f=fopen(p?p:"/dev/null","r"); }
  if(!f||fscanf(f,"%127s",buf)!=1) return 0;
  return strtod(buf,0);
}
void __CPROVER_assume(int c){ if(!c){ printf("ASSUME-FALSE\n"); fflush(stdout); exit(3);} }
void __CPROVER_assert(int c,const char*m){ if(!c){ printf("ASSERT-FAIL %s\n",m); fflush(stdout);} }
void verif_out_double(double d){ printf("D %.17g\n", d); }
void verif_out_int(int d){ printf("I %d\n", d); }
int verif_int_in(int lo, int hi){ int v=(int)nextv(); __CPROVER_assume(v>=lo && v<=hi); return v; }
double verif_double_in(double lo, double hi){ double v=nextv(); __CPROVER_assume(v>=lo && v<=hi); return v; }
int verif_choice(int n){ int v=(int)nextv(); __CPROVER_assume(v>=0 && v<n); return v; }
void verif_heap_order(int mode){ (void)mode; }
void verif_band_nofork(int on){ (void)on; }
extern void harness(void);
int main(void){ setvbuf(stdout,0,_IOLBF,1<<12); harness(); fflush(stdout); return 0; }
