#!/usr/bin/env python3
"""irparse: parser for the textual LLVM-14 IR (typed pointers) that
clang++-14 -O1 -S -emit-llvm produces for the adaptagrams translation units
and the libstdc++ headers they pull in, plus the x86-64 data layout."""
import re, sys, struct, collections

# ----------------------------------------------------------------------------
# Lexer
# ----------------------------------------------------------------------------
TOK_RE = re.compile(r'''
    (?P<ws>[ \t\r\n]+)
  | (?P<comment>;[^\n]*)
  | (?P<cstr>c"(?:[^"\\]|\\[0-9A-Fa-f]{2}|\\\\)*")
  | (?P<str>"(?:[^"\\]|\\[0-9A-Fa-f]{2}|\\\\)*")
  | (?P<lvar>%(?:"(?:[^"\\]|\\.)*"|[-a-zA-Z$._0-9]+))
  | (?P<gvar>@(?:"(?:[^"\\]|\\.)*"|[-a-zA-Z$._0-9]+))
  | (?P<meta>!(?:"(?:[^"\\]|\\.)*"|[-a-zA-Z$._0-9]*))
  | (?P<attrgrp>\#[0-9]+)
  | (?P<comdat>\$(?:"(?:[^"\\]|\\.)*"|[-a-zA-Z$._0-9]+))
  | (?P<hex>0x[KLMHR]?[0-9A-Fa-f]+)
  | (?P<float>[-+]?[0-9]+\.[0-9]*(?:[eE][-+]?[0-9]+)?)
  | (?P<int>[-+]?[0-9]+)
  | (?P<dots>\.\.\.)
  | (?P<word>[a-zA-Z_][-a-zA-Z$._0-9]*)
  | (?P<punct>[()\[\]{}<>,=*:|])
''', re.X)


def lex(text):
    toks = []
    pos = 0
    n = len(text)
    m = TOK_RE.match
    while pos < n:
        mo = m(text, pos)
        if not mo:
            raise SyntaxError('lex error at %r' % text[pos:pos + 60])
        k = mo.lastgroup
        if k not in ('ws', 'comment'):
            toks.append((k, mo.group(k)))
        pos = mo.end()
    toks.append(('eof', ''))
    return toks

# ----------------------------------------------------------------------------
# Types
# ----------------------------------------------------------------------------
class Ty:
    pass

class TVoid(Ty):
    def key(self): return 'void'
class TInt(Ty):
    def __init__(s, bits): s.bits = bits
    def key(s): return 'i%d' % s.bits
class TFloat(Ty):
    def __init__(s, kind): s.kind = kind  # 'float','double','x86_fp80'
    def key(s): return s.kind
class TPtr(Ty):
    def __init__(s, to): s.to = to
    def key(s): return s.to.key() + '*'
class TArr(Ty):
    def __init__(s, n, el): s.n = n; s.el = el
    def key(s): return '[%d x %s]' % (s.n, s.el.key())
class TVec(Ty):
    def __init__(s, n, el): s.n = n; s.el = el
    def key(s): return '<%d x %s>' % (s.n, s.el.key())
class TStruct(Ty):
    def __init__(s, name=None, fields=None, packed=False, opaque=False):
        s.name = name; s.fields = fields; s.packed = packed; s.opaque = opaque
    def key(s):
        if s.name: return s.name
        return ('<{' if s.packed else '{') + ','.join(f.key() for f in s.fields) + '}'
class TFunc(Ty):
    def __init__(s, ret, params, vararg): s.ret = ret; s.params = params; s.vararg = vararg
    def key(s): return s.ret.key() + '(' + ','.join(p.key() for p in s.params) + (',...' if s.vararg else '') + ')'
class TLabel(Ty):
    def key(s): return 'label'
class TMeta(Ty):
    def key(s): return 'metadata'

VOID = TVoid(); I1 = TInt(1); I8 = TInt(8); I32 = TInt(32); I64 = TInt(64); DOUBLE = TFloat('double')

PARAM_ATTRS = set('''noundef nonnull noalias nocapture readonly readnone writeonly signext zeroext
 returned inreg immarg nest nofree swiftself swifterror inalloca noreturn nounwind'''.split())
PARAM_ATTRS_ARG = set('align dereferenceable dereferenceable_or_null sret byval byref preallocated elementtype'.split())
FN_ATTR_WORDS = set('''nounwind readonly readnone noreturn nobuiltin builtin cold minsize optsize alwaysinline
 inlinehint noinline mustprogress norecurse willreturn nofree nosync uwtable argmemonly inaccessiblememonly
 inaccessiblemem_or_argmemonly speculatable convergent writeonly nomerge noduplicate returns_twice ssp sspstrong sspreq
 sanitize_address naked optnone allocsize hot nocallback'''.split())
LINKAGE = set('''private internal available_externally linkonce weak common appending extern_weak linkonce_odr
 weak_odr external dso_local dso_preemptable default hidden protected local_unnamed_addr unnamed_addr
 thread_local externally_initialized'''.split())
FMF = set('fast nnan ninf nsz arcp contract afn reassoc'.split())
CCONV = set('ccc fastcc coldcc'.split())

class Val:
    """Operand: kind in local, global, int, float, null, undef, zero, cexpr, agg, str, bool"""
    def __init__(s, kind, ty, v=None, ops=None):
        s.kind = kind; s.ty = ty; s.v = v; s.ops = ops

class Instr:
    def __init__(s, op, res=None, ty=None, **kw):
        s.op = op; s.res = res; s.ty = ty; s.__dict__.update(kw)

class Func:
    def __init__(s): s.blocks = []; s.params = []; s.attrs = set()

class Global:
    pass

class Module:
    def __init__(s):
        s.structs = collections.OrderedDict()
        s.globals = collections.OrderedDict()
        s.funcs = collections.OrderedDict()
        s.attrgroups = {}
        s.datalayout = ''

# ----------------------------------------------------------------------------
# Parser
# ----------------------------------------------------------------------------
class Parser:
    def __init__(s, text):
        s.t = lex(text); s.i = 0; s.m = Module()
        # pre-scan aliases (they may be used before their definition)
        s.aliases = {}
        for mo in re.finditer(r'^(@[^ ]+) = .*?\balias\b.*?(@[-a-zA-Z$._0-9]+|@"[^"]*")\s*$', text, re.M):
            s.aliases[mo.group(1)] = mo.group(2)

    def peek(s, o=0): return s.t[s.i + o]
    def next(s):
        tk = s.t[s.i]; s.i += 1; return tk
    def accept(s, val):
        if s.t[s.i][1] == val and s.t[s.i][0] in ('word', 'punct', 'dots'):
            s.i += 1; return True
        return False
    def expect(s, val):
        tk = s.next()
        if tk[1] != val:
            ctx = ' '.join(x[1] for x in s.t[max(0, s.i - 12):s.i + 6])
            raise SyntaxError('expected %r got %r near: %s' % (val, tk, ctx))
    def err(s, msg):
        ctx = ' '.join(x[1] for x in s.t[max(0, s.i - 15):s.i + 8])
        raise SyntaxError(msg + ' near: ' + ctx)

    # ---- types
    def named_struct(s, name):
        st = s.m.structs.get(name)
        if st is None:
            st = TStruct(name=name, opaque=True)
            s.m.structs[name] = st
        return st

    def parse_type(s):
        k, v = s.next()
        if k == 'word':
            if v == 'void': ty = VOID
            elif v[0] == 'i' and v[1:].isdigit(): ty = TInt(int(v[1:]))
            elif v in ('double', 'float', 'x86_fp80', 'half', 'fp128'): ty = TFloat(v)
            elif v == 'label': ty = TLabel()
            elif v == 'metadata': ty = TMeta()
            elif v == 'opaque': ty = TStruct(opaque=True)
            elif v == 'ptr': ty = TPtr(I8)
            else: s.err('unknown type word %r' % v)
        elif k == 'lvar':
            ty = s.named_struct(v)
        elif v == '[':
            n = int(s.next()[1]); s.expect('x'); el = s.parse_type(); s.expect(']')
            ty = TArr(n, el)
        elif v == '{':
            ty = TStruct(fields=s.parse_struct_body(), packed=False)
        elif v == '<':
            if s.peek()[1] == '{':
                s.next(); f = s.parse_struct_body(); s.expect('>')
                ty = TStruct(fields=f, packed=True)
            else:
                n = int(s.next()[1]); s.expect('x'); el = s.parse_type(); s.expect('>')
                ty = TVec(n, el)
        else:
            s.err('bad type start %r' % v)
        # suffixes
        while True:
            if s.peek()[1] == '*' and s.peek()[0] == 'punct':
                s.next(); ty = TPtr(ty)
            elif s.peek()[1] == 'addrspace':
                s.next(); s.expect('('); s.next(); s.expect(')')
            elif s.peek()[1] == '(' and s.peek()[0] == 'punct':
                s.next(); params = []; va = False
                while not s.accept(')'):
                    if s.accept('...'): va = True
                    else:
                        params.append(s.parse_type()); s.skip_param_attrs()
                    s.accept(',')
                ty = TFunc(ty, params, va)
            else:
                break
        return ty

    def parse_struct_body(s):
        f = []
        while not s.accept('}'):
            f.append(s.parse_type()); s.accept(',')
        return f

    def skip_param_attrs(s):
        while True:
            k, v = s.peek()
            if k == 'word' and v in PARAM_ATTRS:
                s.next()
            elif k == 'word' and v in PARAM_ATTRS_ARG:
                s.next()
                if s.peek()[1] == '(':
                    s.skip_parens()
                elif s.peek()[0] == 'int':
                    s.next()
            else:
                break

    def skip_parens(s):
        s.expect('('); d = 1
        while d:
            v = s.next()[1]
            if v == '(': d += 1
            elif v == ')': d -= 1

    # ---- values
    def parse_value(s, ty):
        k, v = s.next()
        if k == 'lvar': return Val('local', ty, v)
        if k == 'gvar': return Val('global', ty, s.aliases.get(v, v))
        if k == 'int':
            return Val('int', ty, int(v))
        if k == 'float': return Val('float', ty, float(v))
        if k == 'hex':
            if isinstance(ty, TFloat):
                body = v[2:]
                if body[0] in 'KLMHR': s.err('unsupported hex float ' + v)
                bits = int(body, 16)
                return Val('float', ty, struct.unpack('<d', struct.pack('<Q', bits))[0])
            return Val('int', ty, int(v, 16))
        if k == 'cstr':
            return Val('str', ty, decode_cstr(v[2:-1]))
        if k == 'word':
            if v == 'true': return Val('int', ty, 1)
            if v == 'false': return Val('int', ty, 0)
            if v == 'null': return Val('null', ty)
            if v in ('undef', 'poison'): return Val('undef', ty)
            if v == 'zeroinitializer': return Val('zero', ty)
            if v == 'getelementptr':
                s.accept('inbounds'); s.expect('(')
                bty = s.parse_type(); s.expect(',')
                ops = []
                while True:
                    s.accept('inrange')
                    t = s.parse_type(); ops.append(s.parse_value(t))
                    if not s.accept(','): break
                s.expect(')')
                return Val('cexpr', ty, 'getelementptr', [bty] + ops)
            if v in ('bitcast', 'inttoptr', 'ptrtoint', 'trunc', 'zext', 'sext', 'addrspacecast',
                     'sitofp', 'uitofp', 'fptosi', 'fptoui', 'fpext', 'fptrunc'):
                s.expect('('); t = s.parse_type(); o = s.parse_value(t); s.expect('to'); t2 = s.parse_type(); s.expect(')')
                return Val('cexpr', t2, v, [o])
            if v in ('add', 'sub', 'mul', 'and', 'or', 'xor', 'shl', 'lshr', 'ashr', 'udiv', 'sdiv'):
                while s.peek()[1] in ('nuw', 'nsw', 'exact'): s.next()
                s.expect('('); t = s.parse_type(); a = s.parse_value(t); s.expect(','); t2 = s.parse_type(); b = s.parse_value(t2); s.expect(')')
                return Val('cexpr', t, v, [a, b])
            if v == 'icmp':
                pred = s.next()[1]
                s.expect('('); t = s.parse_type(); a = s.parse_value(t); s.expect(','); t2 = s.parse_type(); b = s.parse_value(t2); s.expect(')')
                return Val('cexpr', I1, 'icmp', [pred, a, b])
            if v == 'select':
                s.expect('('); t = s.parse_type(); c = s.parse_value(t); s.expect(','); t1 = s.parse_type(); a = s.parse_value(t1); s.expect(','); t2 = s.parse_type(); b = s.parse_value(t2); s.expect(')')
                return Val('cexpr', t1, 'select', [c, a, b])
            s.err('unknown constant word %r' % v)
        if v == '{' or (v == '<' and s.peek()[1] == '{'):
            if v == '<': s.next()
            ops = []
            while not s.accept('}'):
                t = s.parse_type(); ops.append(s.parse_value(t)); s.accept(',')
            if v == '<': s.expect('>')
            return Val('agg', ty, None, ops)
        if v == '[':
            ops = []
            while not s.accept(']'):
                t = s.parse_type(); ops.append(s.parse_value(t)); s.accept(',')
            return Val('agg', ty, None, ops)
        if v == '<':
            ops = []
            while not s.accept('>'):
                t = s.parse_type(); ops.append(s.parse_value(t)); s.accept(',')
            return Val('agg', ty, None, ops)
        s.err('bad value %r' % v)

    def parse_tv(s):
        t = s.parse_type(); s.skip_param_attrs()
        return s.parse_value(t)

    # ---- top level
    def parse_module(s):
        while s.peek()[0] != 'eof':
            k, v = s.peek()
            if k == 'word' and v == 'source_filename':
                s.next(); s.expect('='); s.next()
            elif k == 'word' and v == 'target':
                s.next(); w = s.next()[1]; s.expect('='); val = s.next()[1]
                if w == 'datalayout': s.m.datalayout = val
            elif k == 'lvar':
                s.next(); s.expect('='); s.expect('type')
                name = v
                if s.peek()[1] == 'opaque':
                    s.next(); s.named_struct(name)
                else:
                    packed = False
                    if s.accept('<'): packed = True
                    s.expect('{'); f = s.parse_struct_body()
                    if packed: s.expect('>')
                    st = s.named_struct(name); st.fields = f; st.packed = packed; st.opaque = False
            elif k == 'gvar':
                s.parse_global()
            elif k == 'word' and v == 'define':
                s.parse_function(True)
            elif k == 'word' and v == 'declare':
                s.parse_function(False)
            elif k == 'word' and v == 'attributes':
                s.next(); g = s.next()[1]; s.expect('='); s.expect('{')
                words = set()
                while not s.accept('}'):
                    words.add(s.next()[1])
                s.m.attrgroups[g] = words
            elif k == 'comdat':
                s.next(); s.expect('='); s.expect('comdat'); s.next()
            elif k == 'meta':
                # metadata definition: skip to end of balanced line
                s.next()
                if s.accept('='):
                    s.skip_meta_def()
            elif k == 'word' and v == 'module':
                s.next(); s.expect('asm'); s.next()
            else:
                s.err('unknown top-level %r' % (v,))
        return s.m

    def skip_meta_def(s):
        # forms: !{...} | distinct !{...} | !DIxxx(...)
        s.accept('distinct')
        k, v = s.next()
        if s.peek()[1] == '{':
            s.next(); d = 1
            while d:
                x = s.next()[1]
                if x == '{': d += 1
                elif x == '}': d -= 1
        elif s.peek()[1] == '(':
            s.skip_parens()

    def parse_global(s):
        name = s.next()[1]; s.expect('=')
        g = Global(); g.name = name; g.linkage = set(); g.init = None; g.is_decl = False; g.const = False
        g.alias = None
        while s.peek()[0] == 'word' and s.peek()[1] in LINKAGE:
            g.linkage.add(s.next()[1])
        if s.peek()[1] == 'thread_local': s.next()
        if s.peek()[1] in ('alias', 'ifunc'):
            s.next(); t = s.parse_type(); s.expect(','); t2 = s.parse_type(); g.alias = s.parse_value(t2); g.ty = t
            s.m.globals[name] = g; return
        kw = s.next()[1]
        if kw not in ('global', 'constant'): s.err('expected global/constant')
        g.const = (kw == 'constant')
        g.ty = s.parse_type()
        if 'external' in g.linkage or 'extern_weak' in g.linkage:
            g.is_decl = True
        else:
            g.init = s.parse_value(g.ty)
        while s.accept(','):
            w = s.next()[1]
            if w == 'align': s.next()
            elif w == 'comdat':
                if s.peek()[1] == '(': s.skip_parens()
            elif w == 'section' or w == 'partition': s.next()
            elif w.startswith('!'): s.next()
            else: s.err('global trailer %r' % w)
        s.m.globals[name] = g

    def parse_function(s, is_def):
        s.next()
        f = Func(); f.is_def = is_def
        while True:
            k, v = s.peek()
            if k == 'word' and (v in LINKAGE or v in CCONV or v in PARAM_ATTRS):
                s.next()
            elif k == 'word' and v in PARAM_ATTRS_ARG:
                s.next()
                if s.peek()[1] == '(': s.skip_parens()
                elif s.peek()[0] == 'int': s.next()
            else: break
        f.ret = s.parse_type()
        f.name = s.next()[1]
        s.expect('(')
        f.vararg = False
        while not s.accept(')'):
            if s.accept('...'):
                f.vararg = True
            else:
                t = s.parse_type(); s.skip_param_attrs()
                pname = None
                if s.peek()[0] == 'lvar': pname = s.next()[1]
                f.params.append((t, pname))
            s.accept(',')
        # trailing attrs
        while True:
            k, v = s.peek()
            if k == 'attrgrp':
                f.attrs |= s.m.attrgroups.get(v, set()) if v in s.m.attrgroups else set([v]); s.next()
            elif k == 'word' and v in ('unnamed_addr', 'local_unnamed_addr') or (k == 'word' and v in FN_ATTR_WORDS):
                f.attrs.add(v); s.next()
            elif k == 'word' and v in ('align', 'gc', 'section', 'prefix', 'prologue'):
                s.next(); s.next()
            elif k == 'word' and v == 'comdat':
                s.next()
                if s.peek()[1] == '(': s.skip_parens()
            elif k == 'word' and v == 'personality':
                s.next(); s.parse_tv()
            elif k == 'meta':
                s.next(); s.next()
            elif k == 'str':
                s.next()
                if s.accept('='): s.next()
            else: break
        if is_def:
            s.expect('{')
            s.parse_body(f)
        s.m.funcs[f.name] = f

    def parse_body(s, f):
        cur = None
        anon = [0]
        # number unnamed params / blocks like LLVM does
        ctr = 0
        newparams = []
        for (t, p) in f.params:
            if p is None:
                p = '%' + str(ctr); ctr += 1
            elif p[1:].isdigit():
                ctr = int(p[1:]) + 1
            newparams.append((t, p))
        f.params = newparams
        first = True
        while True:
            k, v = s.peek()
            if v == '}' and k == 'punct':
                s.next(); break
            # label?
            if (k in ('word', 'int', 'str')) and s.peek(1)[1] == ':':
                s.next(); s.next()
                name = v[1:-1] if k == 'str' else v
                cur = (('%' + name), []); f.blocks.append(cur); first = False
                continue
            if first:
                cur = ('%' + str(ctr), []); ctr += 1; f.blocks.append(cur); first = False
            ins = s.parse_instr()
            cur[1].append(ins)
            # LLVM numbering of unnamed temporaries is implicit in the text (explicit %N = ...), fine.
        # fix: unnamed entry block label numbering: entry block gets the next number after params
        return

    def skip_instr_trailer(s):
        # ", !dbg !12, !tbaa !3" and ", align 8"
        while s.peek()[1] == ',' :
            k2, v2 = s.peek(1)
            if k2 == 'meta':
                s.next(); s.next(); s.next()
            elif v2 == 'align':
                s.next(); s.next(); s.next()
            else:
                break

    def parse_call_tail(s, res, is_invoke):
        while s.peek()[0] == 'word' and (s.peek()[1] in FMF or s.peek()[1] in CCONV or s.peek()[1] in PARAM_ATTRS):
            s.next()
        s.skip_param_attrs()
        rty = s.parse_type()
        s.skip_param_attrs()
        # rty may be a function type (for varargs) -> pointer callee
        fnty = None
        if isinstance(rty, TFunc):
            fnty = rty; rty = fnty.ret
        k, v = s.peek()
        callee = s.parse_value(None)
        s.expect('(')
        args = []
        while not s.accept(')'):
            t = s.parse_type(); s.skip_param_attrs()
            if isinstance(t, TMeta):
                # metadata argument (dbg intrinsics) -- skip
                s.next()
                if s.peek()[1] == '(': s.skip_parens()
                args.append(Val('undef', t))
            else:
                args.append(s.parse_value(t))
            s.accept(',')
        attrs = set()
        while True:
            k, v = s.peek()
            if k == 'attrgrp':
                attrs |= s.m.attrgroups.get(v, set([v])); s.next()
            elif k == 'word' and v in FN_ATTR_WORDS:
                attrs.add(v); s.next()
            elif v == '[' and k == 'punct':
                # operand bundle
                d = 0
                while True:
                    x = s.next()[1]
                    if x == '[': d += 1
                    elif x == ']':
                        d -= 1
                        if d == 0: break
            else: break
        ins = Instr('invoke' if is_invoke else 'call', res, rty, callee=callee, args=args, attrs=attrs, fnty=fnty)
        if is_invoke:
            s.expect('to'); s.expect('label'); ins.normal = s.next()[1]
            s.expect('unwind'); s.expect('label'); ins.unwind = s.next()[1]
        return ins

    def parse_instr(s):
        res = None
        if s.peek()[0] == 'lvar' and s.peek(1)[1] == '=':
            res = s.next()[1]; s.next()
        k, op = s.next()
        ins = None
        if op in ('tail', 'musttail', 'notail'):
            k, op = s.next()
        if op == 'ret':
            t = s.parse_type()
            ins = Instr('ret', None, t, val=None if isinstance(t, TVoid) else s.parse_value(t))
        elif op == 'br':
            if s.accept('label'):
                ins = Instr('br', target=s.next()[1], cond=None)
            else:
                t = s.parse_type(); c = s.parse_value(t); s.expect(','); s.expect('label'); a = s.next()[1]; s.expect(','); s.expect('label'); b = s.next()[1]
                ins = Instr('br', cond=c, target=a, target2=b)
        elif op == 'switch':
            t = s.parse_type(); v = s.parse_value(t); s.expect(','); s.expect('label'); d = s.next()[1]
            s.expect('['); cases = []
            while not s.accept(']'):
                ct = s.parse_type(); cv = s.parse_value(ct); s.expect(','); s.expect('label'); cases.append((cv, s.next()[1]))
            ins = Instr('switch', val=v, default=d, cases=cases)
        elif op == 'unreachable':
            ins = Instr('unreachable')
        elif op == 'resume':
            ins = Instr('resume', val=s.parse_tv())
        elif op == 'call':
            ins = s.parse_call_tail(res, False)
        elif op == 'invoke':
            ins = s.parse_call_tail(res, True)
        elif op == 'landingpad':
            t = s.parse_type(); cleanup = False; clauses = []
            while True:
                if s.accept('cleanup'): cleanup = True
                elif s.peek()[1] == 'catch' :
                    s.next(); clauses.append(('catch', s.parse_tv()))
                elif s.peek()[1] == 'filter':
                    s.next(); clauses.append(('filter', s.parse_tv()))
                else: break
            ins = Instr('landingpad', res, t, cleanup=cleanup, clauses=clauses)
        elif op in ('add', 'sub', 'mul', 'udiv', 'sdiv', 'urem', 'srem', 'shl', 'lshr', 'ashr', 'and', 'or', 'xor',
                    'fadd', 'fsub', 'fmul', 'fdiv', 'frem'):
            while s.peek()[0] == 'word' and s.peek()[1] in (FMF | {'nuw', 'nsw', 'exact'}): s.next()
            t = s.parse_type(); a = s.parse_value(t); s.expect(','); b = s.parse_value(t)
            ins = Instr('bin', res, t, bop=op, a=a, b=b)
        elif op == 'fneg':
            while s.peek()[1] in FMF: s.next()
            t = s.parse_type(); ins = Instr('fneg', res, t, a=s.parse_value(t))
        elif op == 'icmp' or op == 'fcmp':
            while s.peek()[1] in FMF: s.next()
            pred = s.next()[1]; t = s.parse_type(); a = s.parse_value(t); s.expect(','); b = s.parse_value(t)
            ins = Instr(op, res, I1, pred=pred, a=a, b=b, oty=t)
        elif op == 'alloca':
            s.accept('inalloca')
            t = s.parse_type(); cnt = None
            if s.peek()[1] == ',' and s.peek(1)[1] not in ('align', 'addrspace') and s.peek(1)[0] != 'meta':
                s.next(); cnt = s.parse_tv()
            ins = Instr('alloca', res, TPtr(t), aty=t, cnt=cnt)
        elif op == 'load':
            atomic = s.accept('atomic'); s.accept('volatile')
            t = s.parse_type(); s.expect(','); p = s.parse_tv()
            if atomic:
                while s.peek()[0] == 'word' and s.peek()[1] in ('unordered', 'monotonic', 'acquire', 'seq_cst') or s.peek()[1] == 'syncscope':
                    if s.next()[1] == 'syncscope': s.skip_parens()
            ins = Instr('load', res, t, ptr=p)
        elif op == 'store':
            atomic = s.accept('atomic'); s.accept('volatile')
            v = s.parse_tv(); s.expect(','); p = s.parse_tv()
            if atomic:
                while s.peek()[0] == 'word' and s.peek()[1] in ('unordered', 'monotonic', 'release', 'seq_cst') or s.peek()[1] == 'syncscope':
                    if s.next()[1] == 'syncscope': s.skip_parens()
            ins = Instr('store', None, None, val=v, ptr=p)
        elif op == 'getelementptr':
            s.accept('inbounds')
            bty = s.parse_type(); s.expect(','); p = s.parse_tv(); idx = []
            while s.peek()[1] == ',' and s.peek(1)[0] != 'meta':
                s.next(); idx.append(s.parse_tv())
            ins = Instr('gep', res, None, bty=bty, ptr=p, idx=idx)
        elif op in ('trunc', 'zext', 'sext', 'fptrunc', 'fpext', 'fptoui', 'fptosi', 'uitofp', 'sitofp', 'ptrtoint',
                    'inttoptr', 'bitcast', 'addrspacecast'):
            v = s.parse_tv(); s.expect('to'); t = s.parse_type()
            ins = Instr('cast', res, t, cop=op, a=v)
        elif op == 'select':
            while s.peek()[1] in FMF: s.next()
            c = s.parse_tv(); s.expect(','); a = s.parse_tv(); s.expect(','); b = s.parse_tv()
            ins = Instr('select', res, a.ty, c=c, a=a, b=b)
        elif op == 'phi':
            while s.peek()[1] in FMF: s.next()
            t = s.parse_type(); inc = []
            while True:
                s.expect('['); v = s.parse_value(t); s.expect(','); l = s.next()[1]; s.expect(']'); inc.append((v, l))
                if not (s.peek()[1] == ',' and s.peek(1)[1] == '['): break
                s.next()
            ins = Instr('phi', res, t, inc=inc)
        elif op == 'extractvalue':
            v = s.parse_tv(); idx = []
            while s.peek()[1] == ',' and s.peek(1)[0] == 'int':
                s.next(); idx.append(int(s.next()[1]))
            ins = Instr('extractvalue', res, None, a=v, idx=idx)
        elif op == 'insertvalue':
            v = s.parse_tv(); s.expect(','); e = s.parse_tv(); idx = []
            while s.peek()[1] == ',' and s.peek(1)[0] == 'int':
                s.next(); idx.append(int(s.next()[1]))
            ins = Instr('insertvalue', res, v.ty, a=v, e=e, idx=idx)
        elif op == 'freeze':
            v = s.parse_tv(); ins = Instr('freeze', res, v.ty, a=v)
        elif op == 'fence':
            while s.peek()[0] == 'word' and s.peek()[1] in ('acquire', 'release', 'acq_rel', 'seq_cst', 'syncscope'):
                if s.next()[1] == 'syncscope': s.skip_parens()
            ins = Instr('fence')
        elif op == 'atomicrmw':
            s.accept('volatile'); rop = s.next()[1]; p = s.parse_tv(); s.expect(','); v = s.parse_tv()
            while s.peek()[0] == 'word' and s.peek()[1] in ('monotonic', 'acquire', 'release', 'acq_rel', 'seq_cst', 'syncscope'):
                if s.next()[1] == 'syncscope': s.skip_parens()
            ins = Instr('atomicrmw', res, v.ty, rop=rop, ptr=p, val=v)
        elif op == 'cmpxchg':
            s.accept('weak'); s.accept('volatile'); p = s.parse_tv(); s.expect(','); c = s.parse_tv(); s.expect(','); n = s.parse_tv()
            while s.peek()[0] == 'word' and s.peek()[1] in ('monotonic', 'acquire', 'release', 'acq_rel', 'seq_cst', 'syncscope'):
                if s.next()[1] == 'syncscope': s.skip_parens()
            ins = Instr('cmpxchg', res, TStruct(fields=[c.ty, I1]), ptr=p, cmp=c, new=n)
        else:
            s.err('unsupported instruction %r' % op)
        s.skip_instr_trailer()
        return ins


def decode_cstr(s):
    out = bytearray(); i = 0
    while i < len(s):
        if s[i] == '\\':
            if s[i + 1] == '\\': out.append(92); i += 2
            else: out.append(int(s[i + 1:i + 3], 16)); i += 3
        else:
            out.append(ord(s[i])); i += 1
    return bytes(out)

# ----------------------------------------------------------------------------
# Layout (x86-64 SysV)
# ----------------------------------------------------------------------------
class Layout:
    def __init__(s): s.cache = {}; s.offs = {}
    def size_align(s, t):
        k = t.key() if not (isinstance(t, TStruct) and not t.name) else 'lit:' + t.key()
        r = s.cache.get(k)
        if r: return r
        if isinstance(t, TInt):
            b = 1 if t.bits <= 8 else 2 if t.bits <= 16 else 4 if t.bits <= 32 else 8 if t.bits <= 64 else 16
            r = (b, b)
        elif isinstance(t, TFloat):
            r = {'float': (4, 4), 'double': (8, 8), 'x86_fp80': (16, 16)}[t.kind]
        elif isinstance(t, TPtr): r = (8, 8)
        elif isinstance(t, TArr) or isinstance(t, TVec):
            sz, al = s.size_align(t.el); r = (sz * t.n, al)
        elif isinstance(t, TStruct):
            if t.opaque or t.fields is None: r = (0, 1)
            else:
                off = 0; mal = 1
                for f in t.fields:
                    sz, al = s.size_align(f)
                    if t.packed: al = 1
                    off = (off + al - 1) // al * al
                    off += sz; mal = max(mal, al)
                off = (off + mal - 1) // mal * mal
                r = (off, mal)
        else:
            raise NotImplementedError('size of ' + t.key())
        s.cache[k] = r
        return r
    def size(s, t): return s.size_align(t)[0]
    def align(s, t): return s.size_align(t)[1]
    def field_off(s, st, i):
        k = id(st)
        o = s.offs.get(k)
        if o is None:
            o = []; off = 0
            for f in st.fields:
                sz, al = s.size_align(f)
                if st.packed: al = 1
                off = (off + al - 1) // al * al
                o.append(off); off += sz
            s.offs[k] = o
        return o[i]
