#!/usr/bin/env python3-vt
"""driver: runs the jobs of one property (see /verif/jobs.py), confirms violation candidates by native
replay, applies /verif/known_findings.txt, writes /verif/evidence/<id>.json.

exit 0: property held on everything explored (exhaustively within the stated bounds)
exit 1: replay-confirmed violation that is not a listed known finding  (prints VIOLATION property=.. replay=..)
exit 2: engine inconclusive (unsupported construct, solver unknown, unconfirmed candidate, model/native mismatch)
"""
import sys, os, json, time, hashlib, re, subprocess, collections, argparse
HERE = os.path.dirname(os.path.abspath(__file__))
VERIF = os.path.dirname(HERE)
sys.path.insert(0, HERE); sys.path.insert(0, VERIF)
import build, irsym
from fractions import Fraction


class Job:
    def __init__(s, name, harness, defs=(), libs=('libvpsc',), exclude=(), relax_int=True, max_steps=30000000,
                 time_limit=None, validate_every=1, may_skip=(), bounds='', opts=None, max_paths=None, leak_check=True,
                 path_time_limit=300, libdefs=()):
        s.name = name; s.harness = harness; s.defs = list(defs); s.libs = list(libs); s.exclude = tuple(exclude)
        s.relax_int = relax_int; s.max_steps = max_steps; s.time_limit = time_limit; s.validate_every = validate_every
        s.may_skip = set(may_skip); s.bounds = bounds; s.opts = dict(opts or {}); s.max_paths = max_paths
        s.leak_check = leak_check; s.path_time_limit = path_time_limit; s.libdefs = tuple(libdefs)


def log(msg):
    sys.stdout.write(msg + '\n'); sys.stdout.flush()


def check_messages(ll_path):
    """every CHECK message string the (pruned) harness can evaluate: constant strings passed to __CPROVER_assert"""
    txt = open(ll_path).read()
    strs = {}
    for m in re.finditer(r'^(@[\w.$"-]+) = .*? constant \[\d+ x i8\] c"((?:[^"\\]|\\[0-9A-Fa-f]{2})*)"', txt, re.M):
        strs[m.group(1)] = re.sub(r'\\([0-9A-Fa-f]{2})', lambda x: chr(int(x.group(1), 16)), m.group(2)).rstrip('\0')
    msgs = set()
    for m in re.finditer(r'@__CPROVER_assert\(i32[^,]*,\s*i8\*[^@)]*getelementptr[^@]*(@[\w.$"-]+)', txt):
        if m.group(1) in strs: msgs.add(strs[m.group(1)])
    return msgs


def load_known():
    known = []; fixed = []
    p = os.path.join(VERIF, 'known_findings.txt')
    if os.path.exists(p):
        for line in open(p):
            line = line.strip()
            if not line or line.startswith('#'): continue
            if line.startswith('known:'):
                f = dict(re.findall(r'(\w+)=("[^"]*"|\S+)', line))
                f = {k: v.strip('"') for k, v in f.items()}
                f['line'] = line; known.append(f)
            elif line.startswith('fixed:'):
                fixed.append(line)
    return known, fixed


def match_known(known, prop, job, kind, msg, where):
    for k in known:
        if k.get('property') != prop: continue
        if 'kind' in k and k['kind'] != kind: continue
        if 'job' in k and not re.search(k['job'], job): continue
        if 'msg' in k and k['msg'] not in msg: continue
        if 'site' in k and k['site'] not in where: continue
        return k
    return None


def confirm(job, kind, msg, vals, replay_path):
    """replay one candidate against the native build of the same harness + real sources.
    returns (confirmed: bool, detail)"""
    exe = build.build_native(job.harness, job.defs, job.libs, job.exclude, libdefs=job.libdefs)
    irsym.write_replay(replay_path, vals)
    env = dict(os.environ); env['VERIF_REPLAY'] = replay_path
    def runit(cmd, timeout=120):
        try:
            r = subprocess.run(cmd, env=env, stdout=subprocess.PIPE, stderr=subprocess.PIPE, timeout=timeout)
            return r.returncode, r.stdout.decode(errors='replace'), r.stderr.decode(errors='replace')
        except subprocess.TimeoutExpired:
            return 'timeout', '', ''
    rc, out, err = runit([exe])
    if kind in ('assert', 'assert-band', 'assert-bandpath'):
        ok = ('ASSERT-FAIL ' + msg) in out
        return ok, 'native run %s the CHECK failure' % ('reproduces' if ok else 'does not reproduce')
    if kind == 'termination':
        return rc == 'timeout', 'native run ' + ('timed out (120 s)' if rc == 'timeout' else 'terminated, rc=%s' % rc)
    if kind in ('assertion', 'abort', 'exception', 'ub'):
        if rc not in (0, 'timeout') and rc != 3:
            return True, 'native run died with exit status %s: %s' % (rc, err.strip().splitlines()[-1] if err.strip() else '')
    # memory / uninit / leak (and anything not confirmed above): valgrind memcheck on the plain build
    vg = ['valgrind', '-q', '--error-exitcode=97', '--leak-check=full', '--errors-for-leak-kinds=definite,indirect',
          '--show-leak-kinds=definite,indirect', exe]
    rc2, out2, err2 = runit(vg, timeout=900)
    if rc2 == 97 or (rc2 not in (0, 3, 'timeout')):
        lines = [l for l in err2.splitlines() if '==' in l]
        return True, 'valgrind memcheck: ' + (lines[0].split('== ', 1)[-1] if lines else 'exit %s' % rc2)
    return False, 'not reproduced natively (rc=%s) nor under valgrind (rc=%s)' % (rc, rc2)


def run_job(prop, job, tier, workers):
    t0 = time.time()
    ll = build.build_module(job.harness, job.defs, job.libs, job.exclude, libdefs=job.libdefs)
    exe = build.build_native(job.harness, job.defs, job.libs, job.exclude, libdefs=job.libdefs)
    tb = time.time() - t0
    opts = dict(relax_int=job.relax_int, max_steps=job.max_steps, no_leak_check=not job.leak_check, path_time_limit=job.path_time_limit)
    opts.update(job.opts)
    R = irsym.explore(ll, opts=opts, workers=workers, exe=exe, time_limit=job.time_limit, max_paths=job.max_paths,
                      validate_every=job.validate_every, log=log)
    R['build_s'] = tb
    R['all_msgs'] = check_messages(ll)
    # vacuity guard: the -DWITNESS twin must report its final CHECK(0) on a feasible path
    wl = build.build_module(job.harness, job.defs + ['-DWITNESS'], job.libs, job.exclude, libdefs=job.libdefs)
    W = irsym.explore(wl, opts=opts, workers=1, exe=None, max_paths=6)
    R['witness'] = any(v[0] == 'assert' and v[1] == 'witness reachable' for v in W['violations'])
    if not R['witness'] and W['exhausted'] is False:
        W = irsym.explore(wl, opts=opts, workers=workers, exe=None, max_paths=400)
        R['witness'] = any(v[0] == 'assert' and v[1] == 'witness reachable' for v in W['violations'])
    return R


def main():
    ap = argparse.ArgumentParser()
    ap.add_argument('prop'); ap.add_argument('--tier', default=os.environ.get('VERIF_TIER', 'quick'))
    ap.add_argument('--replay', default=None); ap.add_argument('--workers', type=int, default=16)
    ap.add_argument('--only', default=None, help='regex on job names')
    ap.add_argument('--tl', type=float, default=None, help='override per-job exploration time limit (seconds)')
    a = ap.parse_args()
    import jobs as J
    prop = a.prop
    seed = int(os.environ.get('VERIF_SEED', '0') or 0)
    if a.replay:
        return replay_cmd(J, prop, a.replay)
    tier = a.tier if a.tier in ('quick', 'thorough') else 'quick'
    # the thorough tier is a superset: every quick job plus the deeper ones
    joblist = list(J.JOBS[prop]['quick']) + (list(J.JOBS[prop]['thorough']) if tier == 'thorough' else [])
    if a.only: joblist = [j for j in joblist if re.search(a.only, j.name)]
    if a.tl:
        for j in joblist: j.time_limit = a.tl
    known, fixed = load_known()
    t0 = time.time()
    tot = collections.Counter(); stats = collections.Counter(); called = set(); samples = []; jobinfo = []
    inconclusive = []; violations = []; known_hits = []; unreached = []
    rdir = os.path.join(os.environ.get('VERIF_REPLAY_DIR', os.path.join(VERIF, 'replays')), prop); os.makedirs(rdir, exist_ok=True)
    for job in joblist:
        log('[%s] job %s: %s %s' % (prop, job.name, job.harness, ' '.join(job.defs)))
        R = run_job(prop, job, tier, a.workers)
        tot['paths'] += R['paths']; tot['decisions'] += R['decisions']; tot['validated'] += R['validated']; tot['steps'] += R['steps']
        stats.update(R['stats']); called |= R['called']
        for sm in R['samples'][:2]: samples.append(dict(job=job.name, **sm))
        ji = dict(job=job.name, harness=job.harness, defines=job.defs, bounds=job.bounds, paths=R['paths'], results=dict(R['results']),
                  exhaustive=bool(R['exhausted']), wall_s=round(R['wall_s'], 2), solver_s=round(R['stats'].get('solver_s', 0), 2),
                  solver_calls=R['stats'].get('solver_calls', 0), validated_against_native=R['validated'],
                  validation_skipped=dict(R['val_skipped']), checks_evaluated=dict(R['check_sites']), witness_reachable=R['witness'])
        jobinfo.append(ji)
        log('    paths=%d %s exhaustive=%s validated=%d solver=%.1fs/%d calls wall=%.1fs witness=%s' % (
            R['paths'], dict(R['results']), R['exhausted'], R['validated'], R['stats'].get('solver_s', 0),
            R['stats'].get('solver_calls', 0), R['wall_s'], R['witness']))
        for (e, where, dec) in R['errors'][:5]:
            inconclusive.append('%s: engine error: %s @ %s' % (job.name, e, where))
        if len(R['errors']) > 5: inconclusive.append('%s: ... %d engine errors in total' % (job.name, len(R['errors'])))
        for (mm, dec) in R['mismatches'][:5]:
            inconclusive.append('%s: symbolic/native %s' % (job.name, mm))
        if not R['exhausted']: inconclusive.append('%s: exploration not exhaustive within its limit (%d prefixes pending)' % (job.name, R['pending']))
        if not R['witness']: inconclusive.append('%s: vacuity guard failed: WITNESS twin never reached the end of the harness' % job.name)
        miss = R['all_msgs'] - set(R['check_sites']) - job.may_skip - {'witness reachable'}
        for mmsg in sorted(miss): unreached.append('%s: CHECK never evaluated: %s' % (job.name, mmsg))
        # candidates -> confirm by native replay
        byfp = collections.OrderedDict()
        for (kind, msg, where, model, dec) in R['violations']:
            site = where.split(' <- ')
            sitefn = next((x for x in site if 'harness' not in x and not x.startswith('[')), site[0] if site else '')
            isck = kind in ('assert', 'assert-band', 'assert-bandpath')
            fp = ('assert' if isck else kind, msg if isck else msg.split(':')[0][:80] + (msg[msg.find('('):][:90] if kind == 'assertion' else ''), sitefn if not isck else '')
            byfp.setdefault(fp, []).append((kind, msg, where, model))
        for fp, items in byfp.items():
            kind, msg, where, _ = items[0]
            confirmed = None; detail = ''
            # candidates whose model makes the path certain come first; several are tried before giving up
            items.sort(key=lambda it: {'assert': 0, 'assert-bandpath': 1, 'assert-band': 2}.get(it[0], 0))
            kind = items[0][0]
            step_ = max(1, len(items) // 24)
            for (k_, m_, w_, model) in (items[:8] + items[8::step_])[:32]:
                if model is None: continue
                vals = [(n, k, Fraction(fr)) for (n, k, fr) in model]
                h = hashlib.sha1(('%s|%s|%s' % (job.name, fp, vals)).encode()).hexdigest()[:12]
                rp = os.path.join(rdir, '%s-%s.in' % (job.name, h))
                ok, detail = confirm(job, kind, msg, vals, rp)
                json.dump(dict(property=prop, tier=tier, job=job.name, kind=kind, msg=msg, where=w_, detail=detail),
                          open(rp + '.json', 'w'), indent=1)
                if ok: confirmed = rp; where = w_; break
                else:
                    os.unlink(rp); os.unlink(rp + '.json')
            if confirmed:
                kf = match_known(known, prop, job.name, kind, msg, where)
                if kf: known_hits.append((kf, job.name, kind, msg, confirmed))
                else: violations.append((job.name, kind, msg, where, confirmed, detail, len(items)))
            else:
                first_model = next((m_ for (_k, _m, _w, m_) in items if m_ is not None), None)
                inconclusive.append('%s: UNCONFIRMED candidate (%s) %s @ %s -- %s [inputs of one candidate: %s]' % (job.name, kind, msg, where[:200], detail,
                                    ' '.join(str(fr) for (_n, _k2, fr) in first_model) if first_model else '-'))
    wall = time.time() - t0
    # ---------------- evidence
    ev = dict(property_id=prop, tier=tier, seed=seed, level='model_checking',
              coverage=dict(
                  states=max(tot['paths'], 0), transitions=tot['decisions'],
                  traces_validated_against_impl=tot['validated'], samples=samples[:8] or [dict(note='no completed path')],
                  exhaustive=not inconclusive and all(j['exhaustive'] for j in jobinfo),
                  explanation='states = feasible execution paths of the real code explored by the symbolic executor (each path = one solver-'
                              'distinguished behaviour class covering all input values satisfying its path condition); transitions = branch '
                              'decisions on symbolic data decided by z3; traces_validated = paths whose path-condition model was run through '
                              'the native g++ build and whose outputs matched the symbolic outputs',
                  jobs=jobinfo, functions_encoded=sorted(f for f in called if not f.startswith('@__model'))[:400],
                  functions_encoded_count=len(called), ir_instructions_executed=tot['steps'],
                  solver=dict(name='z3 %s (python API)' % irsym.z3.get_version_string(), calls=stats.get('solver_calls', 0),
                              seconds=round(stats.get('solver_s', 0), 2), assertion_queries=stats.get('assert_queries', 0),
                              branch_forks=stats.get('forks', 0), model_cache_hits=stats.get('model_cache_hits', 0),
                              comparisons_decided_by_cancellation=stats.get('cmp_cancelled', 0),
                              banded_fp_comparisons=stats.get('banded_cmp', 0), integer_rechecks=stats.get('int_rechecks', 0)),
                  unreached_checks=unreached, inconclusive=inconclusive,
                  known_findings=[k[0]['line'] for k in known_hits]),
              assumptions=J.ASSUMPTIONS.get(prop, []) + J.COMMON_ASSUMPTIONS,
              wall_s=round(wall, 2), violations=len(violations))
    if ev['coverage']['states'] < 1: ev['coverage']['states'] = 1
    if ev['coverage']['transitions'] < 1: ev['coverage']['transitions'] = 1
    evdir = os.environ.get('VERIF_EVIDENCE_DIR', os.path.join(VERIF, 'evidence'))     # seeded/try.sh redirects it
    os.makedirs(evdir, exist_ok=True)
    json.dump(ev, open(os.path.join(evdir, prop + '.json'), 'w'), indent=1, default=str)
    for u in unreached: log('NOTE ' + u)
    for (kf, jn, kind, msg, rp) in known_hits:
        log('KNOWN-FINDING: property=%s %s (job %s, %s: %s, replay=%s)' % (prop, kf.get('what', kf['line']), jn, kind, msg, rp))
    for (jn, kind, msg, where, rp, detail, n) in violations:
        log('  violation in job %s: [%s] %s @ %s -- %s (%d candidate paths)' % (jn, kind, msg, where[:300], detail, n))
        log('VIOLATION property=%s replay=%s' % (prop, rp))
    for i in inconclusive: log('INCONCLUSIVE ' + i)
    log('[%s] %s tier: %d jobs, %d paths, %d solver calls, %.1fs' % (prop, tier, len(joblist), tot['paths'], stats.get('solver_calls', 0), wall))
    if violations: return 1
    if inconclusive: return 2
    return 0


def replay_cmd(J, prop, path):
    meta = json.load(open(path + '.json'))
    job = next(j for t in ('quick', 'thorough') for j in J.JOBS[prop][t] if j.name == meta['job'])
    vals = []
    exe = build.build_native(job.harness, job.defs, job.libs, job.exclude, libdefs=job.libdefs)
    env = dict(os.environ); env['VERIF_REPLAY'] = path
    r = subprocess.run([exe], env=env)
    log('replayed %s (job %s, expected: [%s] %s) -> exit status %s' % (path, job.name, meta['kind'], meta['msg'], r.returncode))
    return 0


if __name__ == '__main__':
    sys.exit(main())
