#!/usr/bin/env python3
"""build: /repo working tree -> LLVM IR (clang++-14) -> linked + pruned module for irsym,
and a native g++ build of the same harness + the same real sources for replay.

Everything is cached under /verif/.cache keyed by the *content* of the inputs, so an edited
file in /repo is always recompiled and an unchanged one never is.
"""
import os, sys, hashlib, subprocess, glob, json, shutil
from concurrent.futures import ThreadPoolExecutor

VERIF = os.path.dirname(os.path.dirname(os.path.abspath(__file__)))
REPO = os.environ.get('VERIF_REPO', '/repo')
COLA = os.path.join(REPO, 'cola')
CACHE = os.environ.get('VERIF_CACHE', os.path.join(VERIF, '.cache'))
GUARD = 'ADAPTAGRAMS_VERIF'
LIBS = ['libvpsc', 'libavoid', 'libcola', 'libtopology', 'libdialect', 'libproject']
# files of each library that are never linked (cairo / svg output, timers with I/O only)
SKIP = {'libcola/output_svg.cpp', 'libcola/cola_log.cpp'}

CLANG = 'clang++-14'
IRFLAGS = ['-std=gnu++11', '-O1', '-fno-vectorize', '-fno-slp-vectorize', '-fno-unroll-loops',
           '-ffp-contract=off', '-fno-strict-aliasing', '-S', '-emit-llvm', '-Wno-everything',
           '-DHAVE_CONFIG_H', '-D' + GUARD]
NATFLAGS = ['-std=gnu++11', '-O0', '-w', '-DHAVE_CONFIG_H', '-D' + GUARD]
INCS = ['-I' + COLA, '-I' + os.path.join(VERIF, 'harness'), '-I' + os.path.join(VERIF, 'engine', 'fallback_include')]


def sha(*parts):
    h = hashlib.sha256()
    for p in parts:
        if isinstance(p, str): p = p.encode()
        h.update(p); h.update(b'\0')
    return h.hexdigest()[:24]


_hdr_hash = None
def headers_hash():
    """hash of every header in the repo libraries + the harness directory"""
    global _hdr_hash
    if _hdr_hash is None:
        h = hashlib.sha256()
        files = []
        for lib in LIBS:
            files += glob.glob(os.path.join(COLA, lib, '*.h'))
        files += glob.glob(os.path.join(VERIF, 'harness', '*.h'))
        for f in sorted(files):
            h.update(f.encode()); h.update(open(f, 'rb').read())
        _hdr_hash = h.hexdigest()[:24]
    return _hdr_hash


def run(cmd, **kw):
    r = subprocess.run(cmd, stdout=subprocess.PIPE, stderr=subprocess.STDOUT, **kw)
    if r.returncode != 0:
        sys.stderr.write('BUILD FAILED: %s\n%s\n' % (' '.join(cmd), r.stdout.decode(errors='replace')[-4000:]))
        raise SystemExit(2)
    return r.stdout


def cached(key, suffix, producer):
    os.makedirs(CACHE, exist_ok=True)
    path = os.path.join(CACHE, key + suffix)
    if not os.path.exists(path):
        tmp = path + '.tmp%d' % os.getpid()
        producer(tmp)
        os.replace(tmp, path)
    return path


def lib_sources(lib):
    return [f for f in sorted(glob.glob(os.path.join(COLA, lib, '*.cpp')))
            if os.path.relpath(f, COLA) not in SKIP]


def compile_ir(src, defines=()):
    """one translation unit -> .ll ; harness sources that #include a real .cpp are covered by
    the header hash + the hash of every .cpp of the libraries they name (conservative: all libs)"""
    extra = ''
    if not src.startswith(COLA):
        extra = all_cpp_hash()
    key = sha('ir', ' '.join(IRFLAGS), ' '.join(defines), open(src, 'rb').read(), headers_hash(), extra, src)
    def prod(out):
        run([CLANG] + IRFLAGS + INCS + list(defines) + [src, '-o', out])
    return cached(key, '.ll', prod)


_all_cpp = None
def all_cpp_hash():
    global _all_cpp
    if _all_cpp is None:
        h = hashlib.sha256()
        for lib in LIBS:
            for f in sorted(glob.glob(os.path.join(COLA, lib, '*.cpp'))):
                h.update(open(f, 'rb').read())
        _all_cpp = h.hexdigest()[:24]
    return _all_cpp


def compile_obj(src, defines=(), san=False):
    extra = '' if src.startswith(COLA) else all_cpp_hash()
    flags = NATFLAGS + (['-fsanitize=address,undefined', '-fno-sanitize-recover=undefined', '-g'] if san else [])
    cc = CLANG if san else 'g++'
    key = sha('obj', cc, ' '.join(flags), ' '.join(defines), open(src, 'rb').read(), headers_hash(), extra, src)
    def prod(out):
        run([cc] + flags + INCS + list(defines) + ['-c', src, '-o', out])
    return cached(key, '.o', prod)


def models_ir():
    src = os.path.join(VERIF, 'engine', 'models.c')
    key = sha('models', open(src, 'rb').read())
    def prod(out):
        run(['clang-14', '-O1', '-fno-vectorize', '-fno-slp-vectorize', '-fno-unroll-loops', '-S', '-emit-llvm',
             '-Wno-everything', src, '-o', out])
    return cached(key, '.ll', prod)


def pmap(fn, items):
    with ThreadPoolExecutor(max_workers=16) as ex:
        return list(ex.map(fn, items))


def lib_ir(lib, exclude=(), libdefs=()):
    srcs = [f for f in lib_sources(lib) if os.path.relpath(f, COLA) not in exclude]
    return pmap(lambda f: compile_ir(f, tuple(libdefs)), srcs)


def lib_objs(lib, exclude=(), san=False, libdefs=()):
    srcs = [f for f in lib_sources(lib) if os.path.relpath(f, COLA) not in exclude]
    return pmap(lambda f: compile_obj(f, tuple(libdefs), san), srcs)


def build_module(harness, defines=(), libs=(), exclude=(), keep=('harness',), libdefs=()):
    """returns path of the linked, pruned .ll"""
    hsrc = harness if os.path.isabs(harness) else os.path.join(VERIF, 'harness', harness)
    h_ll = compile_ir(hsrc, list(defines) + list(libdefs))
    parts = [h_ll, models_ir()]
    for lib in libs:
        parts += lib_ir(lib, exclude, libdefs)
    key = sha('link', *[os.path.basename(p) for p in parts])
    def prod(out):
        linked = out + '.linked.bc'
        run(['llvm-link-14'] + parts + ['-o', linked])
        api = ','.join(list(keep) + MODEL_SYMS)
        run(['opt-14', '-enable-new-pm=0', '-internalize', '-internalize-public-api-list=' + api, '-globaldce',
             '-lowerswitch', '-S', linked, '-o', out])
        os.unlink(linked)
    return cached(key, '.pruned.ll', prod)


MODEL_SYMS = ['__model_rb_increment', '__model_rb_decrement', '__model_rb_insert', '__model_rb_erase',
              '__model_list_hook', '__model_list_unhook', '__model_list_transfer', '__model_list_swap',
              '__model_list_reverse', '__model_qsort', '__model_str_assign', '__model_str_create',
              '__model_str_replace', '__model_str_append', '__model_str_mutate', '__model_str_compare',
              '__model_hash_bytes', '__model_prime_next_bkt', '__model_prime_need_rehash']


def build_native(harness, defines=(), libs=(), exclude=(), san=False, libdefs=()):
    hsrc = harness if os.path.isabs(harness) else os.path.join(VERIF, 'harness', harness)
    objs = [compile_obj(hsrc, list(defines) + list(libdefs), san)]
    for lib in libs:
        objs += lib_objs(lib, exclude, san, libdefs)
    rt = os.path.join(VERIF, 'engine', 'native_rt.c')
    key = sha('exe', 'san' if san else 'plain', open(rt, 'rb').read(), *[os.path.basename(o) for o in objs])
    def prod(out):
        cc = CLANG if san else 'g++'
        fl = ['-fsanitize=address,undefined'] if san else []
        run([cc] + fl + ['-x', 'c', rt, '-x', 'none'] + objs + ['-lstdc++', '-lm', '-o', out])
    return cached(key, '.exe', prod)


def prebuild():
    """compile every library to IR and to native objects (used by MANIFEST.setup_cmd)"""
    for lib in LIBS[:5]:
        lib_ir(lib); lib_objs(lib)
    models_ir()


if __name__ == '__main__':
    if len(sys.argv) > 1 and sys.argv[1] == 'prebuild':
        prebuild(); print('prebuilt IR + objects in', CACHE)
    elif len(sys.argv) > 1 and sys.argv[1] == 'clean':
        shutil.rmtree(CACHE, ignore_errors=True)
