"""Python models of the non-inline libstdc++ pieces that the libraries' non-error paths reach:
std::string (cxx11 ABI, SSO layout {char* p; size_t len; union{char local[16]; size_t cap}}) out-of-line members,
std::_Hash_bytes (FNV-like: any deterministic function of the bytes will do -- iteration order of unordered
containers is then model-specific, and native validation reports a mismatch if a result depends on it),
std::__detail::_Prime_rehash_policy.  String *contents* are never the subject of a claim."""
import re
from irparse import TInt, TPtr

I8 = TInt(8); I64 = TInt(64); P8 = TPtr(TInt(8))

def _flds(s, this):
    from irsym import Ptr
    p = s.load(this, P8); n = s.load(Ptr(this.obj, this.off + 8), I64)
    local = Ptr(this.obj, this.off + 16)
    cap = 15 if p == local else s.load(Ptr(this.obj, this.off + 16), I64)
    return p, n, cap, local

def _setlen(s, this, p, n):
    from irsym import Ptr
    s.store(Ptr(this.obj, this.off + 8), I64, n); s.store(Ptr(p.obj, p.off + n), I8, 0)

def _grow(s, this, need):
    """make capacity >= need keeping contents; returns data pointer"""
    from irsym import Ptr
    p, n, cap, local = _flds(s, this)
    if need <= cap: return p
    newcap = max(need, 2 * cap)
    o = s.alloc(newcap + 1, 'heap', name='string'); np_ = Ptr(o.id, 0)
    if n: s.memcpy(np_, p, n)
    s.store(Ptr(np_.obj, n), I8, 0)
    if p != local: s.free(p)
    s.store(this, P8, np_); s.store(Ptr(this.obj, this.off + 16), I64, newcap)
    return np_

def _bytes(s, p, n):
    from irsym import Ptr
    out = []
    for i in range(n):
        b = s.load(Ptr(p.obj, p.off + i), I8)
        if not isinstance(b, int): raise s.ExecError('string byte is not concrete')
        out.append(b)
    return out

def _putbytes(s, p, bs):
    from irsym import Ptr
    for i, b in enumerate(bs): s.store(Ptr(p.obj, p.off + i), I8, b)

def x_create(s, fr, ins, a):
    # pointer _M_create(size_type& capacity, size_type old_capacity)
    from irsym import Ptr
    this, capref, old = a
    cap = s.load(capref, I64)
    if cap > old and cap < 2 * old:
        cap = 2 * old; s.store(capref, I64, cap)
    o = s.alloc(cap + 1, 'heap', name='string')
    return Ptr(o.id, 0)

def x_replace(s, fr, ins, a):
    # basic_string& _M_replace(size_type pos, size_type len1, const char* s, size_type len2)
    from irsym import Ptr
    this, pos, len1, src, len2 = a
    p, n, cap, local = _flds(s, this)
    src_b = _bytes(s, src, len2)
    old = _bytes(s, p, n)
    new = old[:pos] + src_b + old[pos + len1:]
    p = _grow(s, this, len(new))
    _putbytes(s, p, new); _setlen(s, this, p, len(new))
    return this

def x_replace_aux(s, fr, ins, a):
    this, pos, n1, n2, c = a
    p, n, cap, local = _flds(s, this)
    old = _bytes(s, p, n)
    new = old[:pos] + [c & 0xff] * n2 + old[pos + n1:]
    p = _grow(s, this, len(new)); _putbytes(s, p, new); _setlen(s, this, p, len(new))
    return this

def x_append(s, fr, ins, a):
    this, src, k = a
    p, n, cap, local = _flds(s, this)
    src_b = _bytes(s, src, k)
    p = _grow(s, this, n + k)
    from irsym import Ptr
    _putbytes(s, Ptr(p.obj, p.off + n), src_b); _setlen(s, this, p, n + k)
    return this

def x_mutate(s, fr, ins, a):
    # void _M_mutate(size_type pos, size_type len1, const char* s, size_type len2): reallocating replace, length NOT updated
    from irsym import Ptr, NULL
    this, pos, len1, src, len2 = a
    p, n, cap, local = _flds(s, this)
    old = _bytes(s, p, n)
    ins_b = _bytes(s, src, len2) if (src != NULL and len2) else [0] * len2
    new = old[:pos] + ins_b + old[pos + len1:]
    newcap = max(len(new), 2 * cap)
    o = s.alloc(newcap + 1, 'heap', name='string'); np_ = Ptr(o.id, 0)
    _putbytes(s, np_, new + [0])
    if p != local: s.free(p)
    s.store(this, P8, np_); s.store(Ptr(this.obj, this.off + 16), I64, newcap)
    return None

def x_erase(s, fr, ins, a):
    this, pos, k = a
    p, n, cap, local = _flds(s, this)
    old = _bytes(s, p, n); new = old[:pos] + old[pos + k:]
    _putbytes(s, p, new); _setlen(s, this, p, len(new))
    return None

def x_reserve(s, fr, ins, a):
    this = a[0]; need = a[1] if len(a) > 1 else 0
    _grow(s, this, need); return None

def x_compare(s, fr, ins, a):
    this, other = a[0], a[1]
    p1, n1, _, _ = _flds(s, this); p2, n2, _, _ = _flds(s, other)
    b1 = _bytes(s, p1, n1); b2 = _bytes(s, p2, n2)
    r = (b1 > b2) - (b1 < b2)
    return r & 0xffffffff

def x_compare_cstr(s, fr, ins, a):
    this, cs = a[0], a[1]
    p1, n1, _, _ = _flds(s, this)
    b1 = _bytes(s, p1, n1); b2 = [ord(c) for c in s.cstring(cs)]
    r = (b1 > b2) - (b1 < b2)
    return r & 0xffffffff

def x_hash_bytes(s, fr, ins, a):
    p, n, seed = a
    h = (seed ^ 0xcbf29ce484222325) & 0xffffffffffffffff
    for b in _bytes(s, p, n):
        h = ((h ^ b) * 0x100000001b3) & 0xffffffffffffffff
    return h

_PRIMES = [2, 3, 5, 7, 11, 13, 17, 19, 23, 29, 31, 37, 41, 43, 47, 53, 59, 61, 67, 71, 73, 79, 83, 89, 97, 103, 109, 113, 127, 137, 139,
           149, 157, 167, 179, 193, 199, 211, 227, 241, 257, 277, 293, 313, 337, 359, 383, 409, 439, 467, 503, 541, 577, 619, 661, 709,
           761, 823, 887, 953, 1031, 1109, 1193, 1289, 1381, 1493, 1613, 1741, 1879, 2029, 2179, 2357, 2549, 2753, 2971, 3209, 3469,
           3739, 4027, 4349, 4703, 5087, 5503, 5953, 6427, 6949, 7517, 8123, 8783, 9497, 10273, 11113, 12011, 12983, 14033, 15173]
def _next_prime(n):
    for p in _PRIMES:
        if p >= n: return p
    raise Exception('hash table too large for the model')

def x_next_bkt(s, fr, ins, a):
    # size_t _Prime_rehash_policy::_M_next_bkt(size_t n) const ; policy = {float max_load; size_t next_resize}
    from irsym import Ptr
    this, n = a
    fast = [2, 2, 2, 3, 5, 5, 7, 7, 11, 11, 11, 11, 13, 13]
    if n < len(fast):
        if n == 0: return 1
        r = fast[n]
    else: r = _next_prime(n)
    import math
    s.store(Ptr(this.obj, this.off + 8), I64, int(math.floor(r * 1.0)) if True else 0)
    return r

def x_need_rehash(s, fr, ins, a):
    # pair<bool,size_t> _M_need_rehash(size_t n_bkt, size_t n_elt, size_t n_ins) const
    from irsym import Ptr
    import math
    this, n_bkt, n_elt, n_ins = a
    nxt = s.load(Ptr(this.obj, this.off + 8), I64)
    if n_elt + n_ins > nxt:
        mlf = 1.0
        min_bkts = max(n_elt + n_ins, 11 if nxt else 11) / mlf
        if min_bkts >= n_bkt:
            nb = x_next_bkt(s, fr, ins, [this, max(int(math.floor(min_bkts)) + 1, n_bkt * 2)])
            return [1, nb]
        s.store(Ptr(this.obj, this.off + 8), I64, int(math.floor(n_bkt * mlf)))
        return [0, 0]
    return [0, 0]

S = r'^@_ZNSt7__cxx1112basic_stringIcSt11char_traitsIcESaIcEE'
SC = r'^@_ZNKSt7__cxx1112basic_stringIcSt11char_traitsIcESaIcEE'
PATTERNS = [
    (re.compile(S + r'9_M_createERmm$'), x_create),
    (re.compile(S + r'10_M_replaceEmmPKcm$'), x_replace),
    (re.compile(S + r'14_M_replace_auxEmmmc$'), x_replace_aux),
    (re.compile(S + r'9_M_appendEPKcm$'), x_append),
    (re.compile(S + r'9_M_mutateEmmPKcm$'), x_mutate),
    (re.compile(S + r'8_M_eraseEmm$'), x_erase),
    (re.compile(S + r'7reserveEm$'), x_reserve),
    (re.compile(S + r'7reserveEv$'), x_reserve),
    (re.compile(SC + r'7compareERKS4_$'), x_compare),
    (re.compile(SC + r'7compareEPKc$'), x_compare_cstr),
    (re.compile(r'^@_ZSt11_Hash_bytesPKvmm$'), x_hash_bytes),
    (re.compile(r'^@_ZNKSt8__detail20_Prime_rehash_policy11_M_next_bktEm$'), x_next_bkt),
    (re.compile(r'^@_ZNKSt8__detail20_Prime_rehash_policy14_M_need_rehashEmmm$'), x_need_rehash),
]

# ---- std::ostringstream / std::stringstream content model.  The stringbuf inside the stream object keeps its text in its
# _M_string member (a real std::string in the modelled SSO layout) with all put/get area pointers null, which is a valid
# libstdc++ state: an inlined str() then returns a copy of _M_string, an out-of-line str() is modelled to do the same.
# Text inserted into streams that are not known string streams (cout, cerr, ofstream) is dropped.  Number formatting is
# approximate ("%g"); formatted numbers are never the subject of a claim.
SB_STRING = 72          # offset of _M_string inside basic_stringbuf (vptr, 6 area pointers, locale, mode)
def _streams(s):
    if not hasattr(s, 'sstreams') or s.sstreams_owner is not s.objs:
        s.sstreams = {}; s.sstreams_owner = s.objs
    return s.sstreams

def _fake_vptr(s, vboff):
    """a stand-in vtable whose [-3] slot holds the virtual-base (basic_ios) offset, as inlined stream code reads it"""
    from irsym import Ptr
    if not hasattr(s, 'fakevt') or s.fakevt_owner is not s.objs:
        s.fakevt = {}; s.fakevt_owner = s.objs
    if vboff not in s.fakevt:
        vt = s.alloc(64, 'global', zero=True, name='fake-stream-vtable')
        s.store(Ptr(vt.id, 0), I64, vboff); s.fakevt[vboff] = Ptr(vt.id, 24)
    return s.fakevt[vboff]

def _init_sstream(s, this, os_off, sb_off):
    from irsym import Ptr
    # vptr(s) of the stream object and a zeroed basic_ios subobject (flags, width, precision, state, ...)
    ios_off = sb_off + 104
    s.store(Ptr(this.obj, this.off + os_off), P8, _fake_vptr(s, ios_off - os_off))
    if os_off != 0: s.store(this, P8, _fake_vptr(s, ios_off))
    s.memset(Ptr(this.obj, this.off + ios_off), 0, 264)
    for o in range(sb_off + 8, sb_off + 56, 8): s.store(Ptr(this.obj, this.off + o), P8, Ptr(0, 0))
    st = Ptr(this.obj, this.off + sb_off + SB_STRING)
    s.store(st, P8, Ptr(st.obj, st.off + 16)); s.store(Ptr(st.obj, st.off + 8), I64, 0); s.store(Ptr(st.obj, st.off + 16), I8, 0)
    _streams(s)[(this.obj, this.off + os_off)] = st

def x_oss_ctor(s, fr, ins, a): _init_sstream(s, a[0], 0, 8); return None
def x_ss_ctor(s, fr, ins, a): _init_sstream(s, a[0], 16, 24); return None

def _emit(s, os_, bs):
    st = _streams(s).get((os_.obj, os_.off))
    if st is None or not bs: return
    from irsym import Ptr
    p, n, cap, local = _flds(s, st)
    p = _grow(s, st, n + len(bs))
    _putbytes(s, Ptr(p.obj, p.off + n), bs); _setlen(s, st, p, n + len(bs))

def x_os_cstr(s, fr, ins, a):
    _emit(s, a[0], [ord(c) & 0xff for c in s.cstring(a[1])]); return a[0]
def x_os_insert(s, fr, ins, a):
    n = a[2]
    if isinstance(n, int) and n < (1 << 20) and (a[0].obj, a[0].off) in _streams(s): _emit(s, a[0], _bytes(s, a[1], n))
    return a[0]
def x_os_char(s, fr, ins, a):
    c = a[1]; _emit(s, a[0], [c & 0xff if isinstance(c, int) else ord('?')]); return a[0]
def x_os_num(s, fr, ins, a):
    v = a[1]
    if isinstance(v, float): t = '%g' % v
    elif isinstance(v, int):
        bits = ins.args[1].ty.bits if hasattr(ins.args[1].ty, 'bits') else 64
        nm = ins.callee.v if ins.callee.kind == 'global' else ''
        signed = nm.endswith(('Ei', 'El', 'Es', 'Ex')) or 'IlE' in nm or 'IxE' in nm
        t = str(v - (1 << bits) if signed and v >> (bits - 1) else v)
    else: t = '?'
    _emit(s, a[0], [ord(c) for c in t]); return a[0]
def x_oss_str(s, fr, ins, a):
    from irsym import Ptr
    out, this = a[0], a[1]
    nm = ins.callee.v
    os_off = 16 if 'basic_stringstream' in nm else 0
    st = _streams(s).get((this.obj, this.off + os_off))
    bs = []
    if st is not None:
        p, n, cap, local = _flds(s, st); bs = _bytes(s, p, n)
    n = len(bs)
    if n <= 15: p = Ptr(out.obj, out.off + 16)
    else:
        o = s.alloc(n + 1, 'heap', name='string'); p = Ptr(o.id, 0)
        s.store(Ptr(out.obj, out.off + 16), I64, n)
    s.store(out, P8, p); _putbytes(s, p, bs + [0]); s.store(Ptr(out.obj, out.off + 8), I64, n)
    return None
def x_oss_dtor(s, fr, ins, a):
    this = a[0]; nm = ins.callee.v
    os_off = 16 if 'basic_stringstream' in nm else 0
    st = _streams(s).pop((this.obj, this.off + os_off), None)
    if st is not None:
        p, n, cap, local = _flds(s, st)
        if p != local: s.free(p)
    return None

SS = r'^@_ZNSt7__cxx11(19basic_ostringstream|18basic_stringstream)IcSt11char_traitsIcESaIcEE'
PATTERNS += [
    (re.compile(r'^@_ZStlsISt11char_traitsIcEERSt13basic_ostreamIcT_ES5_PKc$'), x_os_cstr),
    (re.compile(r'^@_ZSt16__ostream_insertIcSt11char_traitsIcEERSt13basic_ostreamIT_T0_ES6_PKS3_l$'), x_os_insert),
    (re.compile(r'^@_ZStlsISt11char_traitsIcEERSt13basic_ostreamIcT_ES5_c$'), x_os_char),
    (re.compile(r'^@_ZNSolsE[ijlmxydfbs]$'), x_os_num),
    (re.compile(r'^@_ZNSo9_M_insertI[a-z]EERSoT_$'), x_os_num),
    (re.compile(r'^@_ZNSt7__cxx1119basic_ostringstreamIcSt11char_traitsIcESaIcEEC[12]E(v|St13_Ios_Openmode)$'), x_oss_ctor),
    (re.compile(r'^@_ZNSt7__cxx1118basic_stringstreamIcSt11char_traitsIcESaIcEEC[12]E(v|St13_Ios_Openmode)$'), x_ss_ctor),
    (re.compile(r'^@_ZNKSt7__cxx111[89]basic_o?stringstreamIcSt11char_traitsIcESaIcEE3strEv$'), x_oss_str),
    (re.compile(r'^@_ZNSt7__cxx111[89]basic_o?stringstreamIcSt11char_traitsIcESaIcEED[012]Ev$'), x_oss_dtor),
]

# ---- snprintf (libdialect's string_format): concrete format string; concrete arguments are formatted like C, symbolic ones
# become "?" (number formatting is never the subject of a claim)
def x_snprintf(s, fr, ins, a):
    from irsym import NULL, Ptr
    buf, size, fmtp = a[0], a[1], a[2]
    fmt = s.cstring(fmtp); args = list(a[3:]); out = []; i = 0
    while i < len(fmt):
        c = fmt[i]
        if c != '%': out.append(c); i += 1; continue
        j = i + 1
        while j < len(fmt) and fmt[j] in '0123456789.-+ #lhzjt': j += 1
        conv = fmt[j] if j < len(fmt) else '%'
        spec = fmt[i:j + 1]
        if conv == '%': out.append('%')
        else:
            v = args.pop(0) if args else 0
            if conv in 'feEgG':
                out.append((spec.replace('l', '') % v) if isinstance(v, float) else '?')
            elif conv in 'di':
                out.append((spec.replace('l', '').replace('h', '').replace('z', '') % (v - (1 << 32) if v >> 31 and 'l' not in spec else v)) if isinstance(v, int) else '?')
            elif conv in 'uxX':
                out.append((spec.replace('l', '').replace('h', '').replace('z', '').replace('u', 'd') % v) if isinstance(v, int) else '?')
            elif conv == 's': out.append(s.cstring(v))
            elif conv == 'c': out.append(chr(v & 0xff) if isinstance(v, int) else '?')
            else: raise s.ExecError('snprintf conversion %s not modelled' % spec)
        i = j + 1
    text = ''.join(out)
    if buf != NULL and isinstance(size, int) and size > 0:
        bs = [ord(ch) & 0xff for ch in text[:size - 1]] + [0]
        _putbytes(s, buf, bs)
    return len(text)
PATTERNS += [(re.compile(r'^@(snprintf|__snprintf_chk)$'), x_snprintf)]

# ---- libc byte-string helpers on concrete bytes
def x_memcmp(s, fr, ins, a):
    n = a[2]
    if not isinstance(n, int): raise s.ExecError('symbolic memcmp length')
    b1 = _bytes(s, a[0], n) if n else []; b2 = _bytes(s, a[1], n) if n else []
    r = (b1 > b2) - (b1 < b2)
    return r & 0xffffffff
def x_strlen(s, fr, ins, a): return len(s.cstring(a[0]))
def x_memchr(s, fr, ins, a):
    from irsym import Ptr, NULL
    n = a[2]; c = a[1] & 0xff
    for i, b in enumerate(_bytes(s, a[0], n) if n else []):
        if b == c: return Ptr(a[0].obj, a[0].off + i)
    return NULL
def x_strcmp(s, fr, ins, a):
    b1 = s.cstring(a[0]); b2 = s.cstring(a[1]); return ((b1 > b2) - (b1 < b2)) & 0xffffffff
PATTERNS += [(re.compile(r'^@memcmp$'), x_memcmp), (re.compile(r'^@bcmp$'), x_memcmp), (re.compile(r'^@strlen$'), x_strlen), (re.compile(r'^@memchr$'), x_memchr), (re.compile(r'^@strcmp$'), x_strcmp)]
