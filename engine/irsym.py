#!/usr/bin/env python3-vt
"""irsym: path-wise symbolic executor for (a subset of) LLVM-14 IR with z3.

Concrete heap, symbolic numeric data.  Doubles are lifted to exact real terms with
IEEE-exactness tracking: a value that is provably a dyadic rational k*2^-e with |k| <= 2^53
is exact; every other symbolic FP operation adds an explicit rational bound on the rounding
error (sound over-approximation), and comparisons on inexact values yield may/must formulas.
Exploration is replay-based DFS over solver-decided branch decisions (see DESIGN.md section 2).
"""
import sys, os, struct, time, math, collections, subprocess, tempfile, re
from fractions import Fraction
sys.setrecursionlimit(10000)
sys.path.insert(0, os.path.dirname(os.path.abspath(__file__)))
from irparse import (Parser, TVoid, TInt, TFloat, TPtr, TArr, TVec, TStruct, TFunc, TMeta, Val, Layout)
import z3

U = Fraction(1, 2 ** 53)          # unit roundoff (round to nearest)
TINY = Fraction(1, 2 ** 1074)
FMAX_OK = Fraction(sys.float_info.max) + 2 ** 969   # below the round-to-infinity threshold


class Ptr:
    __slots__ = ('obj', 'off')
    def __init__(s, obj, off): s.obj = obj; s.off = off
    def __eq__(s, o): return isinstance(o, Ptr) and s.obj == o.obj and s.off == o.off
    def __hash__(s): return hash((s.obj, s.off))
    def __repr__(s): return 'Ptr(%d,%d)' % (s.obj, s.off)

NULL = Ptr(0, 0)

class FnPtr:
    __slots__ = ('name',)
    def __init__(s, name): s.name = name
    def __eq__(s, o): return isinstance(o, FnPtr) and s.name == o.name
    def __hash__(s): return hash(s.name)
    def __repr__(s): return 'Fn(%s)' % s.name

class Undef:
    def __repr__(s): return 'UNDEF'
UNDEF = Undef()

class SymF:
    """symbolic double.  t: exact real-arithmetic term over the inputs; err: rational bound on
    |IEEE value - t| (running rounding-error bound); [lo,hi]: sound interval of the IEEE value;
    ex: None, or e >= 0 such that t * 2^e is integer valued (a dyadic rational); ex is only
    used to prove the *next* operation exact, so it is meaningful only together with err == 0."""
    __slots__ = ('t', 'lo', 'hi', 'ex', 'err', 'sx')
    def __init__(s, t, lo, hi, ex, err=Fraction(0), sx=False):
        s.t = t; s.lo = lo; s.hi = hi; s.err = err
        s.sx = sx        # sign-exact: the IEEE value is <0, ==0, >0 exactly when t is (even though err > 0)
        s.ex = (0 if ex is True else (None if ex is False else ex))
    def __repr__(s): return 'SymF(%s,[%s,%s],ex=%s,err=%g)' % (s.t, float(s.lo), float(s.hi), s.ex, float(s.err))

class PU:
    """integer with some undefined (never written) bits: val holds the defined bits, mask the undefined ones"""
    __slots__ = ('val', 'mask', 'bits')
    def __init__(s, val, mask, bits): s.val = val & ~mask; s.mask = mask; s.bits = bits
    def __repr__(s): return 'PU(%x,undef=%x,i%d)' % (s.val, s.mask, s.bits)

def mkpu(val, mask, bits):
    full = (1 << bits) - 1
    mask &= full
    if mask == 0: return val & full
    return PU(val & full, mask, bits)

class SymB:
    """symbolic boolean with over-approximation (may be true) and under-approximation (must be true).
    key: identity of a banded floating-point comparison (same operands compared again on one path must
    come out the same way in a real execution, so the first decision is reused)."""
    __slots__ = ('t', 'must', 'key')
    def __init__(s, t, must=None, key=None): s.t = t; s.must = t if must is None else must; s.key = key
    def exact(s): return s.must is s.t
    def __repr__(s): return 'SymB(%s)' % s.t

def b_not(x):
    if x.exact(): return SymB(z3.Not(x.t))
    return SymB(z3.Not(x.must), z3.Not(x.t), (x.key[0], x.key[1], x.key[2], not x.key[3]) if x.key else None)
def b_and(x, y):
    if x.exact() and y.exact(): return SymB(z3.And(x.t, y.t))
    return SymB(z3.And(x.t, y.t), z3.And(x.must, y.must))
def b_or(x, y):
    if x.exact() and y.exact(): return SymB(z3.Or(x.t, y.t))
    return SymB(z3.Or(x.t, y.t), z3.Or(x.must, y.must))
def b_const(v): return SymB(z3.BoolVal(bool(v)))

class SymI:
    __slots__ = ('t', 'lo', 'hi', 'bits')
    def __init__(s, t, lo, hi, bits): s.t = t; s.lo = lo; s.hi = hi; s.bits = bits
    def __repr__(s): return 'SymI(%s)' % s.t

class SymSgn:
    """result of a bitwise and/or/xor of symbolic ints of which only the sign bit is tracked (clang folds
    conjunctions of sign tests into such operations); neg: z3 Bool 'value is negative'"""
    __slots__ = ('neg', 'bits', 'zero')
    def __init__(s, neg, bits, zero=None): s.neg = neg; s.bits = bits; s.zero = zero   # zero: z3 Bool 'value == 0' or None

class FBits:
    """the 64-bit pattern of a symbolic double (result of bitcast double -> i64); only sign-bit tests are supported"""
    __slots__ = ('f',)
    def __init__(s, f): s.f = f

class Part:
    """one byte of a non-splittable value stored in memory"""
    __slots__ = ('val', 'idx', 'size')
    def __init__(s, val, idx, size): s.val = val; s.idx = idx; s.size = size

class Obj:
    __slots__ = ('id', 'size', 'kind', 'alive', 'data', 'zero', 'name', 'base', 'static')
    def __init__(s, id, size, kind, zero=False, name=''):
        s.id = id; s.size = size; s.kind = kind; s.alive = True; s.data = {}; s.zero = zero; s.name = name
        s.base = 0; s.static = False

class ExecError(Exception):
    pass
class PathEnd(Exception):
    def __init__(s, kind, msg=''): s.kind = kind; s.msg = msg
class Violation(Exception):
    def __init__(s, kind, msg, model=None): s.kind = kind; s.msg = msg; s.model = model


INF = float('inf')
def up(fr):
    """round a non-negative rational bound up to a nearby double (keeps error bounds short; sound: never smaller)"""
    if fr == 0: return fr
    try: f = float(fr)
    except OverflowError: return fr
    if f == INF: return fr
    r = Fraction(math.nextafter(f, INF))
    return r if r >= fr else fr
def dn(fr):
    if fr == 0: return fr
    try: f = float(fr)
    except OverflowError: return fr
    if f in (INF, -INF): return fr
    r = Fraction(math.nextafter(f, -INF))
    return r if r <= fr else fr

def z3frac(x):
    if z3.is_int_value(x): return Fraction(x.as_long())
    if z3.is_rational_value(x): return Fraction(x.numerator_as_long(), x.denominator_as_long())
    if z3.is_algebraic_value(x):
        a = x.approx(40); return Fraction(a.numerator_as_long(), a.denominator_as_long())
    raise ExecError('model value is not numeric: %s' % x)

def rv(fr):
    return z3.RealVal(str(fr.numerator) + '/' + str(fr.denominator)) if fr.denominator != 1 else z3.RealVal(fr.numerator)


class Frame:
    __slots__ = ('fn', 'regs', 'bi', 'ii', 'prev_label', 'allocas', 'on_ret')
    def __init__(s, fn): s.fn = fn; s.regs = {}; s.bi = 0; s.ii = 0; s.prev_label = None; s.allocas = []; s.on_ret = None


class Machine:
    def __init__(s, module, opts=None):
        s.m = module
        s.L = Layout()
        s.opts = opts or {}
        s.alias = dict(DEFAULT_ALIASES)
        s.block_index = {}
        for name, f in module.funcs.items():
            if f.is_def:
                s.block_index[name] = {lbl: i for i, (lbl, _) in enumerate(f.blocks)}
        s.stats = collections.Counter()
        s.override = {}
        s.fnaddr = {n: 0x1000 + 16 * i for i, n in enumerate(module.funcs)}

    # ------------------------------------------------------------------ run one path
    def reset(s, prefix):
        s.objs = {}
        s.next_obj = 1
        s.gaddr = {}
        s.stack = []
        s.pc = []                     # list of z3 Bool
        s.solver = z3.Solver()
        s.solver.set('timeout', s.opts.get('solver_timeout_ms', 60000))
        s.prefix = prefix
        s.decisions = []
        s.new_prefixes = []
        s.inputs = []                 # (name, z3 var, kind)
        s.outputs = []
        s.exc = None
        s.caught = []
        s.nsteps = 0
        s.nerr = 0
        s.checks = 0
        s.violations = []
        s.notes = set()
        s.mcache = []
        s.nl = False
        s.last_solver = s.solver
        s.band_memo = {}
        s.band_used = 0
        s.band_nofork = False
        s.in_ranges = {}
        s.btrace = []
        s.band_strict = []
        s.max_steps = s.opts.get('max_steps', 30000000)
        s.called = set()
        s.check_sites = collections.Counter()
        s.heap_order = 0
        s.addr_hi = 1 << 40
        s.addr_lo = 1 << 20
        s.static_phase = True
        s.init_globals()

    def alloc(s, size, kind, zero=False, name=''):
        o = Obj(s.next_obj, size, kind, zero, name); s.next_obj += 1
        s.objs[o.id] = o
        span = (size + 31) // 16 * 16
        if kind == 'heap' and s.heap_order == 1:
            s.addr_hi -= span; o.base = s.addr_hi
        else:
            o.base = s.addr_lo; s.addr_lo += span
        o.static = s.static_phase
        return o

    def addr(s, p):
        """numeric address of a pointer (used only for ordering / differences of unrelated objects)"""
        if isinstance(p, FnPtr): return s.fnaddr[p.name]
        if p.obj == 0: return p.off
        return s.objs[p.obj].base + p.off

    def init_globals(s):
        for name, g in s.m.globals.items():
            if name.startswith('@llvm.') or g.alias is not None: continue
            sz = s.L.size(g.ty)
            o = s.alloc(max(sz, 1), 'global', zero=True, name=name)
            s.gaddr[name] = o.id
        for name, g in s.m.globals.items():
            if name.startswith('@llvm.') or g.alias is not None or g.init is None: continue
            s.write_init(Ptr(s.gaddr[name], 0), g.ty, g.init)
        # VTTs of libstdc++'s string streams (external data): an inlined destructor reads the virtual-base offset through
        # them (vptr[-3]).  Provide a stand-in vtable whose [-3] slot holds the offset of the basic_ios subobject.
        for name, g in s.m.globals.items():
            if g.init is None and name.startswith('@_ZTTNSt7__cxx11') and 'stringstream' in name:
                vboff = 112 if 'basic_ostringstream' in name else (120 if 'basic_istringstream' in name else 128)
                vt = s.alloc(64, 'global', zero=True, name='fake-vtable-for-' + name)
                s.store(Ptr(vt.id, 0), TInt(64), vboff)
                o = s.objs[s.gaddr[name]]
                for k in range(0, o.size, 8): s.store(Ptr(o.id, k), TPtr(TInt(8)), Ptr(vt.id, 24))

    def write_init(s, p, t, v):
        k = v.kind
        if k in ('zero', 'undef'): return
        if k == 'str':
            o = s.objs[p.obj]
            for i, b in enumerate(v.v): o.data[p.off + i] = (1, b)
            return
        if k == 'agg':
            if isinstance(t, TStruct):
                for i, (fv, ft) in enumerate(zip(v.ops, t.fields)):
                    s.write_init(Ptr(p.obj, p.off + s.L.field_off(t, i)), ft, fv)
            else:
                es = s.L.size(t.el)
                for i, fv in enumerate(v.ops):
                    s.write_init(Ptr(p.obj, p.off + i * es), t.el, fv)
            return
        s.store(p, t, s.const(v, t))

    # ------------------------------------------------------------------ constants / operands
    def const(s, v, t=None):
        t = v.ty or t
        k = v.kind
        if k == 'int':
            if isinstance(t, TPtr): return NULL if v.v == 0 else Ptr(0, v.v)
            return v.v & ((1 << t.bits) - 1)
        if k == 'float': return float(v.v)
        if k == 'null': return NULL
        if k == 'global':
            n = v.v
            if n in s.m.funcs: return FnPtr(n)
            if n not in s.gaddr:
                g = s.m.globals.get(n)
                if g is not None and g.alias is not None: return s.const(g.alias)
                raise ExecError('unknown global ' + n)
            return Ptr(s.gaddr[n], 0)
        if k == 'undef':
            if isinstance(t, (TStruct, TArr)): return s.zero_agg(t, UNDEF)
            return UNDEF
        if k == 'zero':
            return s.zero_val(t)
        if k == 'cexpr': return s.cexpr(v)
        if k == 'agg':
            if isinstance(t, TStruct): return [s.const(o, f) for o, f in zip(v.ops, t.fields)]
            return [s.const(o, t.el) for o in v.ops]
        raise ExecError('const kind ' + k)

    def zero_val(s, t):
        if isinstance(t, TInt): return 0
        if isinstance(t, TFloat): return 0.0
        if isinstance(t, TPtr): return NULL
        return s.zero_agg(t, None)

    def zero_agg(s, t, fill):
        if isinstance(t, TStruct): return [s.zero_agg(f, fill) for f in t.fields]
        if isinstance(t, (TArr, TVec)): return [s.zero_agg(t.el, fill) for _ in range(t.n)]
        return fill if fill is not None else s.zero_val(t)

    def cexpr(s, v):
        op = v.v
        if op == 'getelementptr':
            base = s.const(v.ops[1]); idx = [s.const(i) for i in v.ops[2:]]
            return s.gep(v.ops[0], base, idx, [i.ty for i in v.ops[2:]])
        if op in ('bitcast', 'addrspacecast'): return s.const(v.ops[0])
        if op == 'ptrtoint':
            p = s.const(v.ops[0]); return p
        if op == 'inttoptr':
            x = s.const(v.ops[0])
            return x if isinstance(x, (Ptr, FnPtr)) else (NULL if x == 0 else Ptr(0, x))
        raise ExecError('cexpr ' + op)

    def opv(s, fr, v, t=None):
        if v.kind == 'local':
            try: return fr.regs[v.v]
            except KeyError: raise ExecError('undefined register %s in %s' % (v.v, fr.fn.name))
        return s.const(v, t)

    # ------------------------------------------------------------------ memory
    def obj_of(s, p, size, what):
        if not isinstance(p, Ptr):
            raise Violation('memory', '%s through non-pointer %r' % (what, p))
        if p.obj == 0:
            raise Violation('memory', '%s through null/invalid pointer %r' % (what, p))
        o = s.objs.get(p.obj)
        if o is None or not o.alive:
            raise Violation('memory', '%s of dead object (use after free/return) %r' % (what, p))
        if p.off < 0 or p.off + size > o.size:
            raise Violation('memory', '%s out of bounds: off %d size %d objsize %d (%s)' % (what, p.off, size, o.size, o.name))
        return o

    def explode(s, o, off):
        """break the cell starting at off into byte cells"""
        sz, val = o.data.pop(off)
        if isinstance(val, int):
            for i in range(sz): o.data[off + i] = (1, (val >> (8 * i)) & 0xff)
        elif isinstance(val, PU):
            for i in range(sz): o.data[off + i] = (1, mkpu((val.val >> (8 * i)) & 0xff, (val.mask >> (8 * i)) & 0xff, 8))
        elif val is UNDEF:
            pass
        elif isinstance(val, float):
            b = struct.pack('<d' if sz == 8 else '<f', val)
            for i in range(sz): o.data[off + i] = (1, b[i])
        else:
            for i in range(sz): o.data[off + i] = (1, Part(val, i, sz))

    def clear_range(s, o, off, size):
        d = o.data
        for a in range(max(0, off - 15), off + size):
            c = d.get(a)
            if c is None: continue
            if a + c[0] <= off: continue
            if a >= off and a + c[0] <= off + size:
                del d[a]
            else:
                s.explode(o, a)
                for b in range(max(a, off), min(a + c[0], off + size)):
                    d.pop(b, None)

    def store(s, p, t, val):
        size = s.L.size(t)
        if isinstance(t, (TStruct, TArr, TVec)):
            s.store_agg(p, t, val); return
        o = s.obj_of(p, size, 'store')
        if o.kind == 'const':
            raise Violation('memory', 'store to constant')
        c = o.data.get(p.off)
        if c is None or c[0] != size:
            s.clear_range(o, p.off, size)
        elif size > 1:
            pass
        if isinstance(t, TInt) and t.bits == 1 and isinstance(val, int): val &= 1
        if val is UNDEF and not o.zero:
            o.data.pop(p.off, None); return
        o.data[p.off] = (size, val)

    def store_agg(s, p, t, val):
        if isinstance(t, TStruct):
            for i, f in enumerate(t.fields):
                s.store(Ptr(p.obj, p.off + s.L.field_off(t, i)), f, val[i])
        else:
            es = s.L.size(t.el)
            for i in range(t.n): s.store(Ptr(p.obj, p.off + i * es), t.el, val[i])

    def load(s, p, t):
        if isinstance(t, (TStruct, TArr, TVec)):
            if isinstance(t, TStruct):
                return [s.load(Ptr(p.obj, p.off + s.L.field_off(t, i)), f) for i, f in enumerate(t.fields)]
            es = s.L.size(t.el)
            return [s.load(Ptr(p.obj, p.off + i * es), t.el) for i in range(t.n)]
        size = s.L.size(t)
        o = s.obj_of(p, size, 'load')
        c = o.data.get(p.off)
        if c is not None and c[0] == size:
            return s.reinterpret(c[1], t)
        # slow path: gather bytes
        d = o.data
        for a in range(max(0, p.off - 15), p.off + size):
            cc = d.get(a)
            if cc is not None and cc[0] > 1 and a + cc[0] > p.off:
                s.explode(o, a)
        bs = []
        nund = 0
        for a in range(p.off, p.off + size):
            cc = d.get(a)
            if cc is None:
                if o.zero: bs.append(0)
                else: bs.append(UNDEF); nund += 1
            else: bs.append(cc[1])
        if nund == size: return UNDEF
        if all(isinstance(b, int) or b is UNDEF or isinstance(b, PU) for b in bs):
            x = 0; m = 0
            for i, b in enumerate(bs):
                if b is UNDEF: m |= 0xff << (8 * i)
                elif isinstance(b, PU): x |= b.val << (8 * i); m |= b.mask << (8 * i)
                else: x |= b << (8 * i)
            if m:
                if isinstance(t, TInt): return mkpu(x, m, 8 * size)
                return UNDEF
            return s.reinterpret(x, t)
        if all(isinstance(b, Part) for b in bs) and bs[0].idx == 0 and bs[0].size == size and all(b.val is bs[0].val and b.idx == i for i, b in enumerate(bs)):
            return s.reinterpret(bs[0].val, t)
        if any(b is UNDEF or (isinstance(b, Part) and b.val is UNDEF) for b in bs): return UNDEF
        if size == 1 and isinstance(bs[0], Part): return bs[0]
        raise ExecError('load of mixed/partial symbolic bytes at %r type %s: %r' % (p, t.key(), [(b.val, b.idx, b.size) if isinstance(b, Part) else b for b in bs]))

    def reinterpret(s, val, t):
        if isinstance(t, TFloat):
            if isinstance(val, int) and not isinstance(val, bool):
                return struct.unpack('<d', struct.pack('<Q', val))[0] if t.kind == 'double' else struct.unpack('<f', struct.pack('<I', val))[0]
            return val
        if isinstance(t, TInt):
            if isinstance(val, float):
                return struct.unpack('<Q', struct.pack('<d', val))[0]
            if isinstance(val, Ptr) and val.obj == 0: return val.off
            return val
        if isinstance(t, TPtr):
            if isinstance(val, int): return NULL if val == 0 else Ptr(0, val)
            return val
        return val

    def memcpy(s, dst, src, n, move=False):
        if n == 0: return
        so = s.obj_of(src, n, 'memcpy-src'); do = s.obj_of(dst, n, 'memcpy-dst')
        # collect source cells overlapping the range
        for a in range(max(0, src.off - 15), src.off + n):
            c = so.data.get(a)
            if c is not None and c[0] > 1 and (a < src.off or a + c[0] > src.off + n) and a + c[0] > src.off:
                s.explode(so, a)
        cells = []
        a = src.off
        end = src.off + n
        while a < end:
            c = so.data.get(a)
            if c is None:
                if so.zero: cells.append((a - src.off, 1, 0))
                a += 1
            else:
                cells.append((a - src.off, c[0], c[1])); a += c[0]
        s.clear_range(do, dst.off, n)
        if so.zero and not do.zero:
            pass
        for (rel, sz, val) in cells:
            do.data[dst.off + rel] = (sz, val)
        if not so.zero and do.zero:
            # bytes unwritten in src are undef; in a zero-default dst they'd read 0 -- mark explicitly
            pass

    def memset(s, dst, byte, n):
        if n == 0: return
        do = s.obj_of(dst, n, 'memset')
        s.clear_range(do, dst.off, n)
        if not isinstance(byte, int): raise ExecError('symbolic memset')
        byte &= 0xff
        a = dst.off
        # use 8-byte cells where aligned for speed
        while n >= 8 and a % 8 == 0:
            do.data[a] = (8, int.from_bytes(bytes([byte]) * 8, 'little')); a += 8; n -= 8
        while n > 0:
            do.data[a] = (1, byte); a += 1; n -= 1

    def free(s, p, what='free'):
        if p == NULL: return
        if not isinstance(p, Ptr): raise Violation('memory', 'free of non-pointer')
        o = s.objs.get(p.obj)
        if o is None or o.kind != 'heap' or p.off != 0:
            raise Violation('memory', 'free of invalid pointer %r' % p)
        if not o.alive: raise Violation('memory', 'double free %r' % p)
        o.alive = False; o.data = {}

    # ------------------------------------------------------------------ gep
    def gep(s, bty, base, idx, itys):
        if not isinstance(base, Ptr):
            raise Violation('memory', 'gep on non-pointer %r' % (base,))
        off = base.off
        cur = bty
        first = True
        for ix, it in zip(idx, itys):
            if isinstance(ix, (SymI, SymB)):
                ix = s.concretize(ix)
            if not isinstance(ix, int): raise ExecError('bad gep index %r' % (ix,))
            b = it.bits
            if ix >= 1 << (b - 1): ix -= 1 << b
            if first:
                off += ix * s.L.size(cur); first = False
            elif isinstance(cur, TStruct):
                off += s.L.field_off(cur, ix); cur = cur.fields[ix]
            else:
                off += ix * s.L.size(cur.el); cur = cur.el
        return Ptr(base.obj, off)

    # ------------------------------------------------------------------ symbolic helpers
    def fresh_input(s, kind, lo=None, hi=None):
        """kind: 'int' (coordinate-like integer, Real-sorted when relax_int), 'choice' (always Int), 'real' (double)"""
        n = len(s.inputs)
        if kind == 'int':
            v = z3.Real('in%d' % n) if s.opts.get('relax_int') else z3.Int('in%d' % n)
        elif kind == 'choice':
            v = z3.Int('in%d' % n)
        else:
            v = z3.Real('in%d' % n)
        s.inputs.append(('in%d' % n, v, kind))
        return v

    def add_pc(s, c):
        s.pc.append(c); s.solver.add(c)
        if s.mcache:
            s.mcache = [m for m in s.mcache if z3.is_true(m.eval(c, model_completion=True))]

    def quick_sat(s, c):
        """is pc /\ c satisfied by one of the cached models of pc?"""
        for m in s.mcache:
            if z3.is_true(m.eval(c, model_completion=True)):
                s.stats['model_cache_hits'] += 1
                return True
        return False

    def check(s, extra=None, use_cache=True):
        if use_cache and extra is not None and s.quick_sat(extra): return True
        s.checks += 1
        t0 = time.time()
        if s.nl:
            # nonlinear path condition: z3's incremental core is weak on NRA; a fresh solver runs the full
            # (nlsat-based) pipeline and decides these small queries quickly
            slv = z3.Solver(); slv.set('timeout', s.opts.get('solver_timeout_ms', 60000))
            slv.add(*s.pc)
            if extra is not None: slv.add(extra)
            r = slv.check()
            s.stats['fresh_solver_calls'] += 1
        else:
            slv = s.solver
            r = slv.check(extra) if extra is not None else slv.check()
        s.last_solver = slv
        s.stats['solver_s'] += time.time() - t0
        s.stats['solver_calls'] += 1
        if r == z3.unknown:
            # retry with fresh solvers, other seeds and a longer limit before giving up (hard nonlinear queries are erratic)
            for attempt in (1, 2):
                s2 = z3.Solver(); s2.set('timeout', 2 * s.opts.get('solver_timeout_ms', 60000)); s2.set('random_seed', 17 * attempt)
                s2.add(*s.pc)
                if extra is not None: s2.add(extra)
                r = s2.check(); s.stats['solver_retries'] += 1
                if r != z3.unknown: slv = s2; s.last_solver = s2; break
        if r == z3.unknown:
            dd = os.environ.get('IRSYM_DUMP_UNKNOWN')
            if dd:
                with open(os.path.join(dd, 'unk_%d_%d.smt2' % (os.getpid(), s.checks)), 'w') as f_:
                    s3 = z3.Solver(); s3.add(*s.pc)
                    if extra is not None: s3.add(extra)
                    f_.write(s3.to_smt2().replace('(check-sat)', ''))
                    f_.write('(check-sat)\n')
            raise ExecError('solver returned unknown: ' + slv.reason_unknown())
        if r == z3.sat:
            s.mcache.append(slv.model())
            if len(s.mcache) > 6: s.mcache.pop(0)
        return r == z3.sat

    def decide(s, b):
        """b: SymB.  returns python bool for the branch taken on this path"""
        k = len(s.decisions)
        may = b.t; mayf = z3.Not(b.must)
        if k < len(s.prefix):
            d = s.prefix[k]
            s.decisions.append(d)
            s.add_pc(may if d else mayf)
            return d
        can_t = s.check(may)
        if not can_t:
            s.decisions.append(False); s.add_pc(mayf); return False
        can_f = s.check(mayf)
        if not can_f:
            s.decisions.append(True); s.add_pc(may); return True
        s.stats['forks'] += 1
        if s.opts.get('fork_sites') and s.stack:
            f0 = s.stack[-1]; i0 = f0.fn.blocks[f0.bi][1][f0.ii]
            s.stats['fork@%s:%s:%s %s' % (f0.fn.name[:60], f0.fn.blocks[f0.bi][0], i0.op, getattr(i0, 'res', ''))] += 1
        s.new_prefixes.append(list(s.decisions) + [False])
        s.decisions.append(True); s.add_pc(may)
        return True

    def decide_free(s):
        k = len(s.decisions)
        if k < len(s.prefix):
            d = s.prefix[k]; s.decisions.append(d); return d
        s.new_prefixes.append(list(s.decisions) + [False]); s.decisions.append(True); s.stats['forks'] += 1
        return True

    def concretize(s, v):
        """fork the path over the feasible values of a symbolic int / bool"""
        if isinstance(v, SymB): return 1 if s.decide(v) else 0
        if not isinstance(v, SymI): return v
        s.stats['int_concretized'] += 1
        if v.hi - v.lo > 4096: raise ExecError('refusing to enumerate a symbolic int with %d possible values' % (v.hi - v.lo + 1))
        for _ in range(4096):
            # propose the value this path will take: replay prefix decides; otherwise ask the solver
            k = len(s.decisions)
            if not s.check(): raise PathEnd('infeasible')
            m = s.last_solver.model()
            val = m.eval(v.t, model_completion=True)
            try: c = val.as_long()
            except Exception:
                fr_ = val.as_fraction()
                c = int(fr_) if fr_.denominator == 1 else None
            if c is None:
                # relaxed-real model gave a non-integer: branch on floor
                import math as _m
                fl = _m.floor(val.as_fraction())
                if s.decide(SymB(v.t <= fl)): v = SymI(v.t, v.lo, fl, v.bits)
                else: v = SymI(v.t, fl + 1, v.hi, v.bits)
                continue
            # deterministic proposal order is required for replay: use the smallest feasible value instead
            c = v.lo
            while c <= v.hi:
                if s.decide(SymB(v.t == c)): return c & ((1 << v.bits) - 1)
                c += 1
            raise PathEnd('infeasible')
        raise ExecError('concretize did not converge')

    def truth(s, v):
        if isinstance(v, SymB): return s.decide(v)
        if isinstance(v, int): return (v & 1) != 0
        if v is UNDEF or isinstance(v, PU): raise Violation('uninit', 'branch on uninitialised value')
        raise ExecError('branch on %r' % (v,))

    def tofrac(s, x):
        if isinstance(x, float):
            if x != x or x in (float('inf'), float('-inf')): raise ExecError('non-finite concrete double meets symbolic value')
            return Fraction(x)
        raise ExecError('tofrac %r' % (x,))

    def asF(s, x):
        if isinstance(x, SymF): return x
        if isinstance(x, float):
            fr = s.tofrac(x)
            e = fr.denominator.bit_length() - 1
            return SymF(rv(fr), fr, fr, e if e <= 200 else None, Fraction(0))
        if x is UNDEF: raise Violation('uninit', 'floating-point use of uninitialised value')
        raise ExecError('asF %r' % (x,))

    def signbit(s, f):
        """sign bit of a symbolic double as SymB; a real term cannot distinguish +0.0 from -0.0, so a value that may be
        zero is refused (harnesses supply the zero cases as concrete +0.0 / -0.0)"""
        if f.lo > 0: return b_const(False)
        if f.hi < 0: return b_const(True)
        if f.err != 0 and not f.sx: raise ExecError('sign bit of an inexact symbolic double whose interval contains 0')
        if s.check(f.t == 0): raise ExecError('sign bit of a symbolic double that can be zero (+0.0/-0.0 are indistinguishable in the real model)')
        s.add_pc(f.t != 0)
        return SymB(f.t < 0)

    def mk(s, t, lo, hi, ex, perr):
        """result of an IEEE operation whose exact-real value is term t (over operands' exact terms),
        [lo,hi] bounds the real result computed from the operands' IEEE values, perr bounds the error
        propagated from the operands.  Adds the rounding error of this operation unless the result is
        provably representable: a dyadic rational k*2^-ex with |k| <= 2^53 (IEEE 754 correct rounding)."""
        M = max(abs(lo), abs(hi))
        if M > FMAX_OK: raise ExecError('magnitude bound too large for the FP model (possible overflow)')
        if ex is not None and perr == 0 and ex <= 900 and M * (1 << ex) <= 2 ** 53:
            return SymF(t, lo, hi, ex, Fraction(0))
        r = U * M + TINY
        s.stats['round_terms'] += 1
        return SymF(t, dn(lo - r), up(hi + r), None, up(perr + r))

    def fbin(s, op, a, b):
        if isinstance(a, float) and isinstance(b, float):
            try:
                if op == 'fadd': return a + b
                if op == 'fsub': return a - b
                if op == 'fmul': return a * b
                if op == 'fdiv':
                    if b == 0.0:
                        if a == 0.0 or a != a: return float('nan')
                        return math.copysign(float('inf'), a) * math.copysign(1.0, b)
                    return a / b
                if op == 'frem': return math.fmod(a, b)
            except OverflowError:
                return float('inf')
        if op in ('fadd', 'fsub'):
            # absorption: a concrete value of magnitude >= 2^1000 plus/minus anything below 2^900 rounds back to itself
            for big, small, keep in ((a, b, True), (b, a, op == 'fadd')):
                if isinstance(big, float) and isinstance(small, SymF) and (abs(big) >= 2.0 ** 1000 or big != big):
                    if big != big or abs(big) == INF: return big if keep else -big
                    if max(abs(small.lo), abs(small.hi)) < 2 ** 900:
                        s.stats['fp_absorbed'] += 1
                        return big if keep else -big
        A = s.asF(a); B = s.asF(b)
        both = A.ex is not None and B.ex is not None
        if op in ('fadd', 'fsub'):
            t = A.t + B.t if op == 'fadd' else A.t - B.t
            if both and A.err == 0 and B.err == 0 and isinstance(a, SymF) and isinstance(b, SymF):
                # difference/sum of two exact symbolic values that cancels to a constant (e.g. pin position minus shape
                # centre under a symbolic translation): the IEEE result is that constant when it is representable
                t2 = z3.simplify(t, som=True)
                if z3.is_rational_value(t2):
                    c = Fraction(t2.numerator_as_long(), t2.denominator_as_long())
                    if Fraction(float(c)) == c and abs(c) * (1 << max(A.ex, B.ex)) <= 2 ** 53:
                        s.stats['cancelled_to_const'] += 1
                        return float(c)
            if op == 'fadd':
                return s.mk(t, A.lo + B.lo, A.hi + B.hi, max(A.ex, B.ex) if both else None, A.err + B.err)
            return s.mk(t, A.lo - B.hi, A.hi - B.lo, max(A.ex, B.ex) if both else None, A.err + B.err)
        ma = max(abs(A.lo), abs(A.hi)); mb = max(abs(B.lo), abs(B.hi))
        if op == 'fmul':
            c = [A.lo * B.lo, A.lo * B.hi, A.hi * B.lo, A.hi * B.hi]
            perr = ma * B.err + mb * A.err + A.err * B.err
            if isinstance(a, float) or isinstance(b, float): s.stats['lin_mul'] += 1
            else: s.stats['nonlin_mul'] += 1; s.nl = True
            lo_, hi_ = min(c), max(c)
            if (a is b) or (isinstance(a, SymF) and isinstance(b, SymF) and A.t.eq(B.t)):
                # a square: never negative (the IEEE product of a value with itself is >= 0 as well)
                lo_ = Fraction(0) if A.lo <= 0 <= A.hi else min(A.lo * A.lo, A.hi * A.hi)
                hi_ = max(A.lo * A.lo, A.hi * A.hi)
            return s.mk(A.t * B.t, lo_, hi_, A.ex + B.ex if both else None, perr)
        if op == 'fdiv':
            if B.lo <= 0 <= B.hi:
                # the divisor may be zero: split the path on its sign so that each side has a sound interval
                if isinstance(b, float): raise ExecError('symbolic value divided by concrete zero')
                if B.err != 0 or B.ex is None:
                    # inexact divisor whose interval contains 0 (the code has usually just tested it against 0):
                    # sound only if it is provably at least tau away from zero on this path
                    tau = max(Fraction(1, 10 ** 9), 8 * B.err)
                    near = z3.And(B.t > rv(-tau), B.t < rv(tau))
                    if s.check(near):
                        # feasible over the reals; the harness inputs are integers, so ask again over the integers
                        if s.exists_integer_point(near):
                            raise ExecError('division by an inexact symbolic value that can be within %g of zero' % float(tau))
                        s.stats['near_zero_divisor_excluded_over_integers'] += 1
                    s.add_pc(z3.Not(near)); s.stats['div_away_from_zero'] += 1
                    if s.decide(SymB(B.t > 0)): B = SymF(B.t, max(B.lo, tau - B.err), B.hi, B.ex, B.err)
                    else: B = SymF(B.t, B.lo, min(B.hi, -(tau - B.err)), B.ex, B.err)
                    c = [A.lo / B.lo, A.lo / B.hi, A.hi / B.lo, A.hi / B.hi]
                    mq = max(abs(x) for x in c); minb = min(abs(B.lo), abs(B.hi))
                    perr = (A.err + mq * B.err) / minb
                    s.stats['nonlin_div'] += 1; s.nl = True
                    return s.mk(A.t / B.t, min(c), max(c), None, perr)
                z = z3.RealVal(0)
                if s.decide(SymB(B.t == z)): raise ExecError('floating-point division by a symbolic value that can be zero')
                mn = Fraction(1, 1 << B.ex)          # smallest non-zero magnitude of k*2^-ex
                if s.decide(SymB(B.t > z)): B = SymF(B.t, max(B.lo, mn), B.hi, B.ex, B.err)
                else: B = SymF(B.t, B.lo, min(B.hi, -mn), B.ex, B.err)
            c = [A.lo / B.lo, A.lo / B.hi, A.hi / B.lo, A.hi / B.hi]
            mq = max(abs(x) for x in c)
            minb = min(abs(B.lo), abs(B.hi))      # > 0, already includes B.err
            perr = (A.err + mq * B.err) / minb if (A.err or B.err) else Fraction(0)
            ex = None
            if isinstance(b, float):
                s.stats['lin_div'] += 1
                fb = Fraction(b)
                # division by a concrete power of two is exact scaling
                if A.ex is not None and fb.numerator in (1, -1): ex = A.ex     # b = +-2^-k : multiply
                elif A.ex is not None and fb.denominator == 1 and (abs(fb.numerator) & (abs(fb.numerator) - 1)) == 0:
                    ex = A.ex + abs(fb.numerator).bit_length() - 1
            else: s.stats['nonlin_div'] += 1; s.nl = True
            r = s.mk(A.t / B.t, min(c), max(c), ex, perr)
            # exact dyadic numerator k*2^-e (|k|>=1 or 0) over an exact divisor bounded by M: the correctly rounded
            # quotient is 0 iff the numerator is 0 and otherwise far above the underflow threshold -> same sign as t
            if A.err == 0 and B.err == 0 and A.ex is not None and A.ex <= 200 and max(abs(B.lo), abs(B.hi)) < 2 ** 600:
                r.sx = True
            return r
        raise ExecError('fbin ' + op)

    def fcmp(s, pred, a, b):
        if isinstance(a, float) and isinstance(b, float):
            uno = a != a or b != b
            if pred == 'ord': return int(not uno)
            if pred == 'uno': return int(uno)
            base = pred[1:]
            r = {'eq': a == b, 'ne': a != b, 'gt': a > b, 'ge': a >= b, 'lt': a < b, 'le': a <= b}[base]
            if pred[0] == 'o': return int(r and not uno)
            return int(r or uno)
        for x_, y_, flip in ((a, b, False), (b, a, True)):
            if isinstance(x_, float) and (x_ != x_ or abs(x_) == INF):
                # concrete NaN / infinity against a finite symbolic value
                if x_ != x_: return int(pred[0] == 'u' or pred == 'uno') if pred not in ('ord',) else 0
                if pred == 'ord': return 1
                if pred == 'uno': return 0
                gt = (x_ > 0) != flip          # is a > b ?
                return int({'eq': False, 'ne': True, 'gt': gt, 'ge': gt, 'lt': not gt, 'le': not gt}[pred[1:]])
        A = s.asF(a); B = s.asF(b)
        if pred == 'ord': return 1
        if pred == 'uno': return 0
        base = pred[1:]
        # cheap interval decision (intervals bound the IEEE values)
        if base in ('lt', 'le'):
            if A.hi < B.lo: return 1
            if A.lo > B.hi: return 0
        if base in ('gt', 'ge'):
            if A.lo > B.hi: return 1
            if A.hi < B.lo: return 0
        if base == 'eq' and (A.hi < B.lo or A.lo > B.hi): return 0
        if base == 'ne' and (A.hi < B.lo or A.lo > B.hi): return 1
        sl = A.err + B.err
        if sl != 0 and ((A.sx and isinstance(b, float) and b == 0.0) or (B.sx and isinstance(a, float) and a == 0.0)):
            s.stats['sign_exact_cmp'] += 1
            d = A.t - B.t
            return SymB({'eq': d == 0, 'ne': d != 0, 'gt': d > 0, 'ge': d >= 0, 'lt': d < 0, 'le': d <= 0}[base])
        # syntactic cancellation: identical / numerically constant difference decides without the solver
        dc = None
        if A.t.eq(B.t) and A.err == B.err:
            # the very same expression tree over the same inputs, evaluated by the same sequence of IEEE operations
            # (terms are built, never rewritten): the two doubles are identical, whatever their rounding error
            s.stats['cmp_identical_terms'] += 1
            return int({'eq': True, 'ne': False, 'gt': False, 'ge': True, 'lt': False, 'le': True}[base])
        if A.t.eq(B.t): dc = Fraction(0)
        elif s.opts.get('cancel', True):
            d0 = z3.simplify(A.t - B.t, som=True)
            if z3.is_rational_value(d0): dc = Fraction(d0.numerator_as_long(), d0.denominator_as_long())
            d = d0
        if dc is not None:
            s.stats['cmp_cancelled'] += 1
            if abs(dc) > sl or sl == 0:
                r = {'eq': dc == 0, 'ne': dc != 0, 'gt': dc > 0, 'ge': dc >= 0, 'lt': dc < 0, 'le': dc <= 0}[base]
                return int(r)
            # |difference| is inside the rounding band: both outcomes possible -- decided (and remembered, so that comparing
            # the same two values again, in either order, stays consistent) by the banded code below
            d = rv(dc)
        elif not s.opts.get('cancel', True): d = A.t - B.t
        if sl == 0:
            t = {'eq': d == 0, 'ne': d != 0, 'gt': d > 0, 'ge': d >= 0, 'lt': d < 0, 'le': d <= 0}[base]
            return SymB(t)
        S = rv(sl); NS = rv(-sl)
        s.stats['banded_cmp'] += 1
        # a banded comparison is decided on the spot (forking if both outcomes are possible inside the
        # rounding band) and remembered: comparing the same two values again on this path must agree
        ka = A.t.get_id(); kb = B.t.get_id()
        canon, pos = {'lt': ('lt', True), 'le': ('le', True), 'gt': ('le', False), 'ge': ('lt', False),
                      'eq': ('eq', True), 'ne': ('eq', False)}[base]
        if s.band_nofork:
            # harness oracle code (branch-free): keep the comparison as a may/must pair instead of deciding it here
            if base == 'lt': return SymB(d < S, d < NS)
            if base == 'le': return SymB(d <= S, d <= NS)
            if base == 'gt': return SymB(d > NS, d > S)
            if base == 'ge': return SymB(d >= NS, d >= S)
            if base == 'eq': return SymB(z3.And(d <= S, d >= NS), z3.BoolVal(False))
            return SymB(z3.BoolVal(True), z3.Or(d > S, d < NS))
        prev = s.band_memo.get((canon, ka, kb))
        if prev is not None:
            s.stats['band_memo_hits'] += 1
            return int(prev[0] == pos)
        bb = s.opts.get('band_budget')
        if bb is not None and s.band_used >= bb:
            # stated bound of the job: after this many comparisons decided inside a rounding band on one path, further inexact
            # comparisons are decided as in exact real arithmetic (ties compare equal)
            s.stats['band_budget_exact_cmp'] += 1
            r0 = SymB({'eq': d == 0, 'ne': d != 0, 'gt': d > 0, 'ge': d >= 0, 'lt': d < 0, 'le': d <= 0}[base])
            return r0
        s.band_used += 1
        if base == 'lt': b = SymB(d < S, d < NS)
        elif base == 'le': b = SymB(d <= S, d <= NS)
        elif base == 'gt': b = SymB(d > NS, d > S)
        elif base == 'ge': b = SymB(d >= NS, d >= S)
        elif base == 'eq': b = SymB(z3.And(d <= S, d >= NS), z3.BoolVal(False))
        else: b = SymB(z3.BoolVal(True), z3.Or(d > S, d < NS))
        r = s.decide(b)
        s.band_memo[(canon, ka, kb)] = (r == pos, A.t, B.t)      # keeps the terms (and their ids) alive
        # antisymmetry: a < b decided one way fixes b <= a the other way (a real execution compares the same two doubles)
        if canon == 'lt': s.band_memo.setdefault(('le', kb, ka), (not (r == pos), B.t, A.t))
        elif canon == 'le': s.band_memo.setdefault(('lt', kb, ka), (not (r == pos), B.t, A.t))
        s.band_strict.append(b.must if r else z3.Not(b.t))
        return int(r)
        raise ExecError('fcmp ' + pred)

    def model(s):
        """values of all harness inputs in the solver's current model: [(name, kind, Fraction)]"""
        m = s.last_solver.model()
        return [(n, k, z3frac(m.eval(v, model_completion=True))) for (n, v, k) in s.inputs]

    def int_model(s, extra=None):
        """a model of pc (/\ extra) in which every integer input is integral, or None if there is none.
        With --relax-int the coordinate integers are Real-sorted for proving; a SAT answer is re-solved
        over the integers here before it is believed."""
        if not s.check(extra, use_cache=False): return None
        vals = s.model()
        if all(fr.denominator == 1 for (n, k, fr) in vals if k != 'real'): return vals
        s.stats['int_rechecks'] += 1
        ints_ = [(n, v) for (n, v, k) in s.inputs if k == 'int']
        size_ = 1
        for (n, v) in ints_:
            lo_, hi_ = s.in_ranges.get(n, (0, 1 << 40)); size_ *= (hi_ - lo_ + 1)
        if size_ <= 20000 and not any(k == 'real' for (n, v, k) in s.inputs):
            # small integer domain: find an integral point by exhaustive evaluation instead of nonlinear integer solving
            pt = s.enum_integer_point(extra, ints_)
            if pt is None: return None
            return [(n, k, (Fraction(pt[n]) if n in pt else fr)) for (n, k, fr) in vals]
        sub = []; ivars = {}
        for (n, v, k) in s.inputs:
            if k == 'int' and z3.is_real(v):
                iv = z3.Int(n + '_i'); ivars[n] = iv; sub.append((v, z3.ToReal(iv)))
        s2 = z3.Solver(); s2.set('timeout', s.opts.get('solver_timeout_ms', 20000))
        for c in s.pc: s2.add(z3.substitute(c, *sub))
        if extra is not None: s2.add(z3.substitute(extra, *sub))
        t0 = time.time(); r = s2.check(); s.stats['solver_s'] += time.time() - t0; s.stats['solver_calls'] += 1
        if r == z3.unsat: return None
        if r == z3.unknown:
            # last resort: integral points next to the relaxed model (every floor/ceil combination), tested by evaluation
            import itertools, math as _m
            opts_ = []
            for (n, k, fr) in vals:
                if k == 'real' or fr.denominator == 1: opts_.append([fr])
                else: opts_.append([Fraction(_m.floor(fr)), Fraction(_m.ceil(fr))])
            ncomb = 1
            for o_ in opts_: ncomb *= len(o_)
            if ncomb <= 4096:
                for combo in itertools.product(*opts_):
                    cand = [(n, k, c_) for ((n, k, fr), c_) in zip(vals, combo)]
                    if s.holds_under(cand, extra): return cand
            s.stats['int_recheck_unknown'] += 1
            raise ExecError('integer re-check of a relaxed model returned unknown')
        m2 = s2.model()
        return [(n, k, z3frac(m2.eval(ivars[n] if n in ivars else v, model_completion=True))) for (n, v, k) in s.inputs]

    def exists_integer_point(s, extra):
        """is pc /\\ extra satisfied by some assignment of INTEGERS to the integer inputs?  Decided by exhaustive evaluation
        when the integer inputs span at most 20000 points (exact: substitution + simplification, no solver); otherwise by the
        integer re-solve of int_model."""
        ints = [(n, v) for (n, v, k) in s.inputs if k == 'int']
        if any(k == 'real' for (n, v, k) in s.inputs): return s.int_model(extra) is not None
        size = 1
        for (n, v) in ints:
            lo, hi = s.in_ranges[n]; size *= (hi - lo + 1)
        if size > 20000: return s.int_model(extra) is not None
        return s.enum_integer_point(extra, ints) is not None

    def enum_integer_point(s, extra, ints):
        import itertools
        cons = ([extra] if extra is not None else []) + list(reversed(s.pc))
        s.stats['integer_enumerations'] += 1
        t_start = time.time()
        for combo in itertools.product(*[range(s.in_ranges[n][0], s.in_ranges[n][1] + 1) for (n, v) in ints]):
            if time.time() - t_start > 30: raise ExecError('integer-point enumeration exceeded its 30 s budget')
            sub = [(v, (z3.RealVal(c) if z3.is_real(v) else z3.IntVal(c))) for ((n, v), c) in zip(ints, combo)]
            ok = True
            for c_ in cons:
                r = z3.simplify(z3.substitute(c_, *sub))
                if z3.is_false(r): ok = False; break
                if not z3.is_true(r):
                    # still contains auxiliary (sqrt/angle) variables: ask the solver for this point
                    s2 = z3.Solver(); s2.set('timeout', 1000)
                    for c2 in cons: s2.add(z3.substitute(c2, *sub))
                    rr = s2.check()
                    if rr == z3.unknown: return dict(zip([n for (n, v) in ints], combo))
                    ok = (rr == z3.sat); break
            if ok: return dict(zip([n for (n, v) in ints], combo))
        return None

    def subst(s, vals):
        by = {n: fr for (n, k, fr) in vals}
        out = []
        for (n, v, k) in s.inputs:
            if k == 'choice': continue
            fr = by[n]
            out.append((v, rv(fr) if z3.is_real(v) else z3.IntVal(int(fr))))
        return out

    def holds_under(s, vals, extra=None):
        sub = s.subst(vals)
        for c in s.pc + ([extra] if extra is not None else []):
            if not z3.is_true(z3.simplify(z3.substitute(c, *sub))): return False
        return True

    def eval_out(s, x, sub):
        """value of a harness output under an input assignment: (Fraction value, Fraction tolerance)"""
        if isinstance(x, bool): return Fraction(int(x)), Fraction(0)
        if isinstance(x, int): return Fraction(x), Fraction(0)
        if isinstance(x, float):
            if x != x or x in (float('inf'), float('-inf')): return x, Fraction(0)
            return Fraction(x), Fraction(0)
        if isinstance(x, SymB):
            r = z3.simplify(z3.substitute(x.t, *sub)); return Fraction(int(z3.is_true(r))), Fraction(0 if x.exact() else 1)
        if isinstance(x, (SymF, SymI)):
            r = z3.simplify(z3.substitute(x.t, *sub))
            return z3frac(r), (x.err if isinstance(x, SymF) else Fraction(0))
        return None, None

    # ------------------------------------------------------------------ interpreter
    def global_ctors(s):
        g = s.m.globals.get('@llvm.global_ctors')
        if g is None or g.init is None or g.init.kind != 'agg': return []
        ents = []
        for e in g.init.ops:
            prio = e.ops[0].v; fn = e.ops[1]
            if fn.kind == 'global': ents.append((prio, fn.v))
        ents.sort(key=lambda x: x[0])
        return [n for _, n in ents]

    def run_path(s, entry, prefix):
        s.reset(prefix)
        result = 'ok'
        try:
            s.static_phase = True
            for n in s.global_ctors():
                s.stack.append(Frame(s.m.funcs[n])); s.loop()
            s.static_phase = False
            s.stack.append(Frame(s.m.funcs[entry]))
            s.loop()
            live = [o for o in s.objs.values() if o.kind == 'heap' and o.alive and not o.static]
            if live and not s.opts.get('no_leak_check'):
                names = collections.Counter(o.name for o in live)
                raise Violation('leak', 'heap objects still allocated when the harness returned: ' +
                                ', '.join('%s x%d' % kv for kv in sorted(names.items())[:6]))
        except PathEnd as e:
            result = e.kind + (':' + e.msg if e.msg else '')
        except Violation as e:
            where = ' <- '.join(f.fn.name for f in reversed(s.stack[-8:]))
            if s.stack:
                f0 = s.stack[-1]; i0 = f0.fn.blocks[f0.bi][1][f0.ii]
                where = '[%s %s in block %s] ' % (i0.op, i0.res, f0.fn.blocks[f0.bi][0]) + where
            mdl = e.model
            if mdl is None:
                try: mdl = s.int_model()
                except ExecError: mdl = None; result = 'violation'
            if mdl is None and result != 'violation':
                result = 'infeasible_over_integers'      # path exists only in the real relaxation
                if os.environ.get('IRSYM_DEBUG'): print('DEBUG violation without integer model:', e.kind, e.msg, where[:300], flush=True)
            else:
                s.violations.append((e.kind, e.msg, where, mdl))
                result = 'violation'
        return result

    def try_model(s):
        try:
            return s.int_model()
        except Exception:
            return None

    def loop(s):
        stack = s.stack
        while stack:
            fr = stack[-1]
            lbl, instrs = fr.fn.blocks[fr.bi]
            ins = instrs[fr.ii]
            s.nsteps += 1
            if s.nsteps > s.max_steps:
                raise Violation('termination', 'no termination within the step budget of %d IR instructions' % s.max_steps)
            h = DISPATCH.get(ins.op)
            if h is None: raise ExecError('unsupported op ' + ins.op)
            h(s, fr, ins)

    def jump(s, fr, target):
        lbl = fr.fn.blocks[fr.bi][0]
        bi = s.block_index[fr.fn.name][target]
        instrs = fr.fn.blocks[bi][1]
        # phis: parallel assignment
        vals = []
        i = 0
        while i < len(instrs) and instrs[i].op == 'phi':
            ph = instrs[i]
            for (v, l) in ph.inc:
                if l == lbl:
                    vals.append((ph.res, s.opv(fr, v, ph.ty))); break
            else:
                raise ExecError('phi without incoming for ' + lbl)
            i += 1
        for r, v in vals: fr.regs[r] = v
        fr.bi = bi; fr.ii = i

    def do_ret(s, fr, val):
        for p in fr.allocas:
            o = s.objs[p]; o.alive = False; o.data = {}
        s.stack.pop()
        if fr.on_ret is not None: fr.on_ret()
        if not s.stack:
            return
        caller = s.stack[-1]
        ins = caller.fn.blocks[caller.bi][1][caller.ii]
        if ins.res is not None and not isinstance(ins.ty, TVoid):
            caller.regs[ins.res] = val
        if ins.op == 'invoke':
            s.jump(caller, ins.normal)
        else:
            caller.ii += 1

    # exceptions
    def ti_matches(s, thrown, target):
        if target == NULL: return True
        seen = 0
        work = [thrown]
        while work and seen < 32:
            t = work.pop(); seen += 1
            if t == target: return True
            o = s.objs.get(t.obj) if isinstance(t, Ptr) else None
            if o is None: continue
            g = s.m.globals.get(o.name)
            if g is None or g.init is None or g.init.kind != 'agg': continue
            def walk(v):
                if v.kind == 'global' and v.v.startswith('@_ZTI'): work.append(Ptr(s.gaddr[v.v], 0))
                elif v.ops:
                    for x in v.ops:
                        if isinstance(x, Val): walk(x)
            for x in g.init.ops[2:]: walk(x)
        return False

    def unwind(s):
        """propagate s.exc up the stack"""
        while s.stack:
            fr = s.stack[-1]
            ins = fr.fn.blocks[fr.bi][1][fr.ii]
            if ins.op == 'invoke':
                # look at landingpad
                bi = s.block_index[fr.fn.name][ins.unwind]
                lp = None
                for j in fr.fn.blocks[bi][1]:
                    if j.op == 'landingpad': lp = j; break
                    if j.op != 'phi': break
                if lp is None: raise ExecError('unwind target without landingpad')
                sel = 0; matched = False
                for (ck, cv) in lp.clauses:
                    if ck == 'catch':
                        tgt = s.const(cv)
                        if s.ti_matches(s.exc[1], tgt):
                            sel = 0x7ffe if tgt == NULL else tgt.obj
                            matched = True; break
                if matched or lp.cleanup:
                    s.jump(fr, ins.unwind)
                    # execute the landingpad now
                    fr2 = s.stack[-1]
                    lpi = fr2.fn.blocks[fr2.bi][1][fr2.ii]
                    assert lpi.op == 'landingpad'
                    fr2.regs[lpi.res] = [s.exc[0], sel]
                    fr2.ii += 1
                    return
            for p in fr.allocas:
                o = s.objs[p]; o.alive = False; o.data = {}
            s.stack.pop()
        raise Violation('exception', 'uncaught C++ exception left the harness (typeinfo %s)' % (s.objs[s.exc[1].obj].name if isinstance(s.exc[1], Ptr) and s.exc[1].obj in s.objs else s.exc[1]))


# ---------------------------------------------------------------------- instruction handlers
def h_br(s, fr, ins):
    if ins.cond is None: s.jump(fr, ins.target)
    else:
        c = s.opv(fr, ins.cond)
        tk = s.truth(c)
        if s.opts.get('trace_branches'): s.btrace.append((fr.fn.name, fr.fn.blocks[fr.bi][0], tk, str(c)[:300] if not isinstance(c, int) else c))
        s.jump(fr, ins.target if tk else ins.target2)

def h_switch(s, fr, ins):
    v = s.concretize(s.opv(fr, ins.val))
    if not isinstance(v, int): raise ExecError('symbolic switch')
    for (cv, tl) in ins.cases:
        if s.const(cv, ins.val.ty) == v:
            s.jump(fr, tl); return
    s.jump(fr, ins.default)

def h_ret(s, fr, ins):
    s.do_ret(fr, None if ins.val is None else s.opv(fr, ins.val, ins.ty))

def h_alloca(s, fr, ins):
    n = 1
    if ins.cnt is not None:
        n = s.opv(fr, ins.cnt)
        if not isinstance(n, int): raise ExecError('symbolic alloca count')
    o = s.alloc(s.L.size(ins.aty) * n, 'stack', name='alloca in ' + fr.fn.name)
    fr.allocas.append(o.id)
    fr.regs[ins.res] = Ptr(o.id, 0); fr.ii += 1

def h_load(s, fr, ins):
    p = s.opv(fr, ins.ptr)
    v = s.load(p, ins.ty)
    if v is UNDEF and s.opts.get('lenient_uninit') and isinstance(ins.ty, TInt):
        s.stats['lenient_uninit_loads'] += 1; v = 0
    fr.regs[ins.res] = v; fr.ii += 1

def h_store(s, fr, ins):
    p = s.opv(fr, ins.ptr)
    s.store(p, ins.val.ty, s.opv(fr, ins.val)); fr.ii += 1

def h_gep(s, fr, ins):
    base = s.opv(fr, ins.ptr)
    idx = [s.opv(fr, i) for i in ins.idx]
    fr.regs[ins.res] = s.gep(ins.bty, base, idx, [i.ty for i in ins.idx]); fr.ii += 1

def sgn(x, bits):
    return x - (1 << bits) if x >> (bits - 1) else x

def h_bin(s, fr, ins):
    a = s.opv(fr, ins.a, ins.ty); b = s.opv(fr, ins.b, ins.ty); op = ins.bop
    if op[0] == 'f':
        if a is UNDEF or b is UNDEF: raise Violation('uninit', 'FP arithmetic on uninitialised value')
        fr.regs[ins.res] = s.fbin(op, a, b); fr.ii += 1; return
    bits = ins.ty.bits; mask = (1 << bits) - 1
    if isinstance(a, int) and isinstance(b, int):
        if op == 'add': r = (a + b) & mask
        elif op == 'sub': r = (a - b) & mask
        elif op == 'mul': r = (a * b) & mask
        elif op == 'and': r = a & b
        elif op == 'or': r = a | b
        elif op == 'xor': r = a ^ b
        elif op == 'shl': r = (a << b) & mask if b < bits else 0
        elif op == 'lshr': r = a >> b if b < bits else 0
        elif op == 'ashr': r = (sgn(a, bits) >> min(b, bits - 1)) & mask
        elif op == 'udiv':
            if b == 0: raise Violation('ub', 'integer division by zero')
            r = a // b
        elif op == 'urem':
            if b == 0: raise Violation('ub', 'integer division by zero')
            r = a % b
        elif op in ('sdiv', 'srem'):
            if b == 0: raise Violation('ub', 'integer division by zero')
            sa = sgn(a, bits); sb = sgn(b, bits)
            q = abs(sa) // abs(sb)
            if (sa < 0) != (sb < 0): q = -q
            r = (q if op == 'sdiv' else sa - q * sb) & mask
        else: raise ExecError('bin ' + op)
        fr.regs[ins.res] = r; fr.ii += 1; return
    if (isinstance(a, PU) or a is UNDEF or isinstance(b, PU) or b is UNDEF) and op in ('and', 'or', 'xor', 'shl', 'lshr') \
            and isinstance(a, (int, PU, Undef)) and isinstance(b, (int, PU, Undef)):
        def pv(x):
            if x is UNDEF: return 0, mask
            if isinstance(x, PU): return x.val, x.mask
            return x, 0
        av, am = pv(a); bv, bm = pv(b)
        if op == 'and':
            d0 = (~am & ~av) | (~bm & ~bv)          # bits defined 0 in either operand
            m = (am | bm) & ~d0; v = av & bv
        elif op == 'or':
            d1 = (~am & av) | (~bm & bv)
            m = (am | bm) & ~d1; v = av | bv
        elif op == 'xor':
            m = am | bm; v = av ^ bv
        else:
            if bm: raise Violation('uninit', 'shift by a partly uninitialised amount')
            if op == 'shl': v = av << bv if bv < bits else 0; m = am << bv if bv < bits else 0
            else: v = av >> bv if bv < bits else 0; m = am >> bv if bv < bits else 0
        fr.regs[ins.res] = mkpu(v & mask, m & mask, bits); fr.ii += 1; return
    # pointer arithmetic expressed on integers (ptrtoint results)
    if isinstance(a, Ptr) and isinstance(b, Ptr) and op == 'sub' and a.obj == b.obj:
        fr.regs[ins.res] = (a.off - b.off) & mask; fr.ii += 1; return
    if isinstance(a, Ptr) and isinstance(b, Ptr) and op == 'sub':
        s.stats['cross_object_ptrdiff'] += 1
        s.notes.add('cross-object pointer difference in ' + fr.fn.name)
        fr.regs[ins.res] = (s.addr(a) - s.addr(b)) & mask; fr.ii += 1; return
    if isinstance(a, Ptr) and isinstance(b, int) and op in ('add', 'sub'):
        fr.regs[ins.res] = Ptr(a.obj, a.off + (sgn(b, bits) if op == 'add' else -sgn(b, bits))); fr.ii += 1; return
    # symbolic booleans
    if bits == 1 or (isinstance(a, (SymB, int)) and isinstance(b, (SymB, int)) and op in ('and', 'or', 'xor')):
        def tb(x):
            if isinstance(x, SymB): return x
            return b_const(x & 1)
        if op in ('or', 'xor') and bits > 1 and ((isinstance(a, int) and a > 1) or (isinstance(b, int) and b > 1)):
            # a widened (0/1-valued) symbolic boolean combined with a constant that has other bits set
            cst, sb = (a, b) if isinstance(a, int) else (b, a)
            if not sb.exact(): sb = b_const(s.decide(sb))
            v1 = sgn((cst | 1) if op == 'or' else (cst ^ 1), bits); v0 = sgn(cst, bits)
            if v1 == v0: r = cst
            else:
                mk_ = z3.RealVal if s.opts.get('relax_int') else z3.IntVal
                r = SymI(z3.If(sb.t, mk_(v1), mk_(v0)), min(v0, v1), max(v0, v1), bits)
            fr.regs[ins.res] = r; fr.ii += 1; return
        if op in ('and', 'or', 'xor') and (isinstance(a, SymB) or isinstance(b, SymB)):
            # short-circuit with concrete
            if op == 'and' and ((isinstance(a, int) and a & 1 == 0) or (isinstance(b, int) and b & 1 == 0)): r = 0
            elif op == 'or' and ((isinstance(a, int) and a & 1) or (isinstance(b, int) and b & 1)): r = 1
            else:
                X = tb(a); Y = tb(b)
                if op == 'and': r = b_and(X, Y)
                elif op == 'or': r = b_or(X, Y)
                else: r = b_or(b_and(X, b_not(Y)), b_and(b_not(X), Y))
            fr.regs[ins.res] = r; fr.ii += 1; return
    if op in ('and', 'or', 'xor') and bits > 1 and (isinstance(a, (SymI, SymSgn)) or isinstance(b, (SymI, SymSgn))) \
            and isinstance(a, (SymI, SymSgn, int)) and isinstance(b, (SymI, SymSgn, int)):
        def ng(x):
            if isinstance(x, SymSgn): return x.neg
            if isinstance(x, SymI): return x.t < 0
            return z3.BoolVal(sgn(x, bits) < 0)
        def zr(x):
            if isinstance(x, SymSgn): return x.zero
            if isinstance(x, SymI): return x.t == 0
            return z3.BoolVal(x == 0)
        A = ng(a); B = ng(b)
        r = z3.And(A, B) if op == 'and' else (z3.Or(A, B) if op == 'or' else z3.Xor(A, B))
        zz = None
        if op == 'or' and zr(a) is not None and zr(b) is not None: zz = z3.And(zr(a), zr(b))
        elif op == 'xor' and isinstance(a, (SymI, int)) and isinstance(b, (SymI, int)):
            ta = a.t if isinstance(a, SymI) else sgn(a, bits); tb = b.t if isinstance(b, SymI) else sgn(b, bits)
            zz = ta == tb
        fr.regs[ins.res] = SymSgn(r, bits, zz); fr.ii += 1; return
    if op == 'xor' and isinstance(a, (FBits, int)) and isinstance(b, (FBits, int)) and (isinstance(a, FBits) or isinstance(b, FBits)):
        def sb_(x): return s.signbit(x.f).t if isinstance(x, FBits) else z3.BoolVal(sgn(x, 64) < 0)
        fr.regs[ins.res] = SymSgn(z3.Xor(sb_(a), sb_(b)), 64); fr.ii += 1; return
    if op == 'lshr' and isinstance(a, FBits) and b == 63:
        fr.regs[ins.res] = s.signbit(a.f); fr.ii += 1; return
    if op == 'lshr' and isinstance(a, (SymI, SymSgn)) and b == bits - 1:
        fr.regs[ins.res] = SymB(a.neg if isinstance(a, SymSgn) else a.t < 0); fr.ii += 1; return
    if isinstance(a, SymSgn) or isinstance(b, SymSgn): raise ExecError('unsupported use of a sign-only symbolic value in ' + op)
    if isinstance(a, (SymI, int)) and isinstance(b, (SymI, int)) and op in ('add', 'sub', 'mul'):
        def ti(x):
            if isinstance(x, SymI): return x
            v = sgn(x, bits); return SymI((z3.RealVal if s.opts.get('relax_int') else z3.IntVal)(v), v, v, bits)
        A = ti(a); B = ti(b)
        if op == 'add': t, lo, hi = A.t + B.t, A.lo + B.lo, A.hi + B.hi
        elif op == 'sub': t, lo, hi = A.t - B.t, A.lo - B.hi, A.hi - B.lo
        else:
            c = [A.lo * B.lo, A.lo * B.hi, A.hi * B.lo, A.hi * B.hi]; t, lo, hi = A.t * B.t, min(c), max(c)
        if lo < -(1 << (bits - 1)) or hi >= (1 << (bits - 1)): raise ExecError('symbolic int may overflow')
        fr.regs[ins.res] = SymI(t, lo, hi, bits); fr.ii += 1; return
    if a is UNDEF or b is UNDEF or isinstance(a, PU) or isinstance(b, PU):
        raise Violation('uninit', 'integer arithmetic (%s) on uninitialised value' % op)
    if isinstance(a, (SymB, SymI)) or isinstance(b, (SymB, SymI)):
        a = s.concretize(a); b = s.concretize(b)
        fr.regs['%__tmp_a'] = a; fr.regs['%__tmp_b'] = b
        ins2 = Instr_like(ins, Val('local', ins.ty, '%__tmp_a'), Val('local', ins.ty, '%__tmp_b'))
        return h_bin(s, fr, ins2)
    if isinstance(a, SymB) or isinstance(b, SymB):
        # integer arithmetic on a widened symbolic boolean: split the path on it
        s.stats['bool_concretized'] += 1
        if isinstance(a, SymB): a = 1 if s.decide(a) else 0
        if isinstance(b, SymB): b = 1 if s.decide(b) else 0
        fr.regs['%__tmp_a'] = a; fr.regs['%__tmp_b'] = b
        ins2 = Instr_like(ins, Val('local', ins.ty, '%__tmp_a'), Val('local', ins.ty, '%__tmp_b'))
        return h_bin(s, fr, ins2)
    raise ExecError('bin %s on %r, %r' % (op, a, b))

class Instr_like:
    def __init__(s, ins, a, b): s.op = ins.op; s.bop = ins.bop; s.ty = ins.ty; s.res = ins.res; s.a = a; s.b = b

def h_fneg(s, fr, ins):
    a = s.opv(fr, ins.a, ins.ty)
    if isinstance(a, float): r = -a
    else:
        A = s.asF(a); r = SymF(-A.t, -A.hi, -A.lo, A.ex, A.err, A.sx)
    fr.regs[ins.res] = r; fr.ii += 1

def h_icmp(s, fr, ins):
    a = s.opv(fr, ins.a, ins.oty); b = s.opv(fr, ins.b, ins.oty); pred = ins.pred
    if isinstance(a, (Ptr, FnPtr)) or isinstance(b, (Ptr, FnPtr)):
        if isinstance(a, int): a = NULL if a == 0 else Ptr(0, a)
        if isinstance(b, int): b = NULL if b == 0 else Ptr(0, b)
        if pred == 'eq': r = int(a == b)
        elif pred == 'ne': r = int(a != b)
        else:
            x = s.addr(a); y = s.addr(b)
            r = int({'ugt': x > y, 'uge': x >= y, 'ult': x < y, 'ule': x <= y, 'sgt': x > y, 'sge': x >= y, 'slt': x < y, 'sle': x <= y}[pred])
        fr.regs[ins.res] = r; fr.ii += 1; return
    if isinstance(a, int) and isinstance(b, int):
        if pred[0] == 's':
            bits = ins.oty.bits; a = sgn(a, bits); b = sgn(b, bits)
        r = {'eq': a == b, 'ne': a != b, 'gt': a > b, 'ge': a >= b, 'lt': a < b, 'le': a <= b}[pred if pred in ('eq', 'ne') else pred[1:]]
        fr.regs[ins.res] = int(r); fr.ii += 1; return
    if (isinstance(a, SymB) or isinstance(b, SymB)) and ins.oty.bits > 1 \
            and (pred not in ('eq', 'ne') or isinstance(a, SymI) or isinstance(b, SymI)
                 or (isinstance(a, int) and a > 1) or (isinstance(b, int) and b > 1)) \
            and all(isinstance(x, (SymB, int, SymI)) for x in (a, b)):
        # a widened (zext) symbolic boolean in an ordered comparison: 0/1-valued integer
        def wi(x):
            if isinstance(x, SymB):
                if not x.exact(): x = b_const(s.decide(x))
                one, zero = ((z3.RealVal(1), z3.RealVal(0)) if s.opts.get('relax_int') else (z3.IntVal(1), z3.IntVal(0)))
                return SymI(z3.If(x.t, one, zero), 0, 1, ins.oty.bits)
            return x
        a = wi(a); b = wi(b)
    if isinstance(a, (SymB,)) or isinstance(b, (SymB,)):
        def tb(x): return x if isinstance(x, SymB) else b_const(x & 1)
        X = tb(a); Y = tb(b)
        xr = b_or(b_and(X, b_not(Y)), b_and(b_not(X), Y))
        if pred == 'ne': r = xr
        elif pred == 'eq': r = b_not(xr)
        elif pred in ('ult', 'sgt'): r = b_and(b_not(X), Y)      # i1: unsigned 0 < 1 ; signed 0 > -1
        elif pred in ('ugt', 'slt'): r = b_and(X, b_not(Y))
        elif pred in ('ule', 'sge'): r = b_or(b_not(X), Y)
        elif pred in ('uge', 'sle'): r = b_or(X, b_not(Y))
        else: raise ExecError('icmp %s on bools' % pred)
        fr.regs[ins.res] = r; fr.ii += 1; return
    if isinstance(a, SymF) and isinstance(ins.oty, TInt): a = FBits(a)       # double loaded through an integer-typed access
    if isinstance(a, FBits) and isinstance(b, int):
        c = sgn(b, 64)
        if pred in ('eq', 'ne') and (c == 0 or c == -(1 << 63)):
            # comparison with the bit pattern of +0.0 / -0.0: decidable when the value cannot be zero
            if a.f.lo > 0 or a.f.hi < 0 or ((a.f.err == 0 or a.f.sx) and not s.check(a.f.t == 0)):
                fr.regs[ins.res] = int(pred == 'ne'); fr.ii += 1; return
            raise ExecError('bit-pattern comparison of a symbolic double that can be zero')
        if (pred, c) in (('slt', 0), ('sle', -1)): neg = True
        elif (pred, c) in (('sgt', -1), ('sge', 0)): neg = False
        else: raise ExecError('unsupported comparison on the bit pattern of a symbolic double')
        fr.regs[ins.res] = s.signbit(a.f) if neg else b_not(s.signbit(a.f)); fr.ii += 1; return
    if isinstance(a, SymSgn) or isinstance(b, SymSgn):
        bits = ins.oty.bits
        if isinstance(a, SymSgn) and isinstance(b, int):
            c = sgn(b, bits)
            if (pred, c) in (('slt', 0), ('sle', -1)): r = SymB(a.neg)
            elif (pred, c) in (('sgt', -1), ('sge', 0)): r = SymB(z3.Not(a.neg))
            elif pred in ('eq', 'ne') and c == 0 and a.zero is not None: r = SymB(a.zero if pred == 'eq' else z3.Not(a.zero))
            else: raise ExecError('unsupported comparison of a sign-only symbolic value: %s %d' % (pred, c))
            fr.regs[ins.res] = r; fr.ii += 1; return
        raise ExecError('unsupported comparison of a sign-only symbolic value')
    if isinstance(a, SymI) or isinstance(b, SymI):
        bits = ins.oty.bits
        def ti(x):
            if isinstance(x, SymI): return x.t
            return (z3.RealVal if s.opts.get('relax_int') else z3.IntVal)(sgn(x, bits) if pred[0] == 's' or pred in ('eq', 'ne') else x)
        A = ti(a); B = ti(b)
        base = pred if pred in ('eq', 'ne') else pred[1:]
        if pred[0] == 'u' and pred not in ('eq', 'ne'):
            # unsigned view of a possibly negative (two's complement) value: a + 2^bits when a < 0
            if isinstance(a, SymI) and a.lo < 0: A = z3.If(A >= 0, A, A + (1 << bits))
            elif isinstance(a, int): A = (z3.RealVal if s.opts.get('relax_int') else z3.IntVal)(a & ((1 << bits) - 1))
            if isinstance(b, SymI) and b.lo < 0: B = z3.If(B >= 0, B, B + (1 << bits))
            elif isinstance(b, int): B = (z3.RealVal if s.opts.get('relax_int') else z3.IntVal)(b & ((1 << bits) - 1))
        t = {'eq': A == B, 'ne': A != B, 'gt': A > B, 'ge': A >= B, 'lt': A < B, 'le': A <= B}[base]
        fr.regs[ins.res] = SymB(t); fr.ii += 1; return
    if a is UNDEF or b is UNDEF or isinstance(a, PU) or isinstance(b, PU):
        raise Violation('uninit', 'comparison of (partly) uninitialised value')
    raise ExecError('icmp on %r %r' % (a, b))

def h_fcmp(s, fr, ins):
    a = s.opv(fr, ins.a, ins.oty); b = s.opv(fr, ins.b, ins.oty)
    if a is UNDEF or b is UNDEF: raise Violation('uninit', 'FP comparison of uninitialised value')
    fr.regs[ins.res] = s.fcmp(ins.pred, a, b); fr.ii += 1

def h_cast(s, fr, ins):
    a = s.opv(fr, ins.a); op = ins.cop; t = ins.ty; ft = ins.a.ty
    if op in ('bitcast', 'addrspacecast'):
        if isinstance(a, SymF) and isinstance(t, TInt): r = FBits(a)
        elif isinstance(a, FBits) and isinstance(t, TFloat): r = a.f
        elif isinstance(t, (TInt, TFloat)) and not isinstance(a, (SymF, SymI, SymB)): r = s.reinterpret(a, t)
        else: r = a
    elif op == 'ptrtoint': r = a
    elif op == 'inttoptr': r = a if isinstance(a, (Ptr, FnPtr)) else (NULL if a == 0 else Ptr(0, a))
    elif op == 'trunc' and (isinstance(a, PU) or a is UNDEF):
        r = UNDEF if a is UNDEF else mkpu(a.val, a.mask, t.bits)
    elif op == 'zext' and isinstance(a, PU):
        r = PU(a.val, a.mask, t.bits)
    elif op == 'sext' and isinstance(a, PU):
        if (a.mask >> (ft.bits - 1)) & 1: r = PU(a.val, a.mask | (((1 << t.bits) - 1) ^ ((1 << ft.bits) - 1)), t.bits)
        else: r = PU(sgn(a.val, ft.bits) & ((1 << t.bits) - 1), a.mask, t.bits)
    elif op == 'trunc':
        if isinstance(a, int): r = a & ((1 << t.bits) - 1)
        elif isinstance(a, SymB): r = a
        elif isinstance(a, SymI):
            if a.lo < -(1 << (t.bits - 1)) or a.hi >= (1 << t.bits): raise ExecError('symbolic trunc may wrap')
            r = SymI(a.t, a.lo, a.hi, t.bits)
        elif isinstance(a, Ptr): r = a
        else: raise ExecError('trunc %r' % (a,))
    elif op == 'zext':
        if isinstance(a, SymI):
            if a.lo < 0: raise ExecError('zext of possibly negative symbolic int')
            r = SymI(a.t, a.lo, a.hi, t.bits)
        else: r = a
    elif op == 'sext':
        if isinstance(a, int): r = sgn(a, ft.bits) & ((1 << t.bits) - 1)
        elif isinstance(a, SymI): r = SymI(a.t, a.lo, a.hi, t.bits)
        elif isinstance(a, SymB):
            if not a.exact(): r = ((1 << t.bits) - 1) if s.decide(a) else 0
            else:
                mk_ = z3.RealVal if s.opts.get('relax_int') else z3.IntVal
                r = SymI(z3.If(a.t, mk_(-1), mk_(0)), -1, 0, t.bits)
        else: raise ExecError('sext %r' % (a,))
    elif op in ('sitofp', 'uitofp'):
        if isinstance(a, int):
            r = float(sgn(a, ft.bits) if op == 'sitofp' else a)
        elif isinstance(a, SymI):
            r = SymF(a.t if z3.is_real(a.t) else z3.ToReal(a.t), Fraction(a.lo), Fraction(a.hi), True)
            if max(abs(a.lo), abs(a.hi)) > 2 ** 53: raise ExecError('sitofp of large symbolic int')
        elif isinstance(a, SymB):
            r = SymF(z3.If(a.t, z3.RealVal(1), z3.RealVal(0)), Fraction(0), Fraction(1), True) if a.exact() else (1.0 if s.decide(a) else 0.0)
        else: raise ExecError('sitofp %r' % (a,))
    elif op in ('fptosi', 'fptoui'):
        if isinstance(a, float): r = int(a) & ((1 << t.bits) - 1)
        else: raise ExecError('fptosi of symbolic')
    elif op in ('fpext', 'fptrunc'):
        if isinstance(a, float):
            r = a if t.kind == 'double' else struct.unpack('<f', struct.pack('<f', a))[0]
        else: raise ExecError('fp width change of symbolic')
    else: raise ExecError('cast ' + op)
    fr.regs[ins.res] = r; fr.ii += 1

def h_select(s, fr, ins):
    c = s.opv(fr, ins.c); a = s.opv(fr, ins.a); b = s.opv(fr, ins.b, ins.ty)
    if isinstance(c, SymB):
        if isinstance(a, (float, SymF)) and isinstance(b, (float, SymF)):
            A = s.asF(a); B = s.asF(b)
            if c.exact():
                r = SymF(z3.If(c.t, A.t, B.t), min(A.lo, B.lo), max(A.hi, B.hi), (max(A.ex, B.ex) if A.ex is not None and B.ex is not None else None), max(A.err, B.err))
            else:
                r = a if s.decide(c) else b
        elif isinstance(a, (int, SymB)) and isinstance(b, (int, SymB)) and isinstance(ins.ty, TInt) and ins.ty.bits == 1:
            def tb(x): return x if isinstance(x, SymB) else b_const(x & 1)
            r = b_or(b_and(c, tb(a)), b_and(b_not(c), tb(b)))
        elif a == b if not isinstance(a, (SymF, SymI, SymB)) and not isinstance(b, (SymF, SymI, SymB)) else False:
            r = a
        elif c.exact() and isinstance(a, (int, SymI)) and isinstance(b, (int, SymI)) and isinstance(ins.ty, TInt) and ins.ty.bits > 1 \
                and not isinstance(a, bool) and not isinstance(b, bool):
            bits = ins.ty.bits
            def ti(x):
                if isinstance(x, SymI): return x
                v = sgn(x, bits); return SymI(z3.IntVal(v), v, v, bits)
            A = ti(a); B = ti(b)
            r = SymI(z3.If(c.t, A.t, B.t), min(A.lo, B.lo), max(A.hi, B.hi), bits)
        else:
            r = a if s.decide(c) else b
    else:
        r = a if s.truth(c) else b
    fr.regs[ins.res] = r; fr.ii += 1

def h_phi(s, fr, ins):
    raise ExecError('phi reached directly')

def h_extractvalue(s, fr, ins):
    v = s.opv(fr, ins.a)
    for ix in ins.idx: v = v[ix]
    fr.regs[ins.res] = v; fr.ii += 1

def h_insertvalue(s, fr, ins):
    import copy
    v = copy.deepcopy(s.opv(fr, ins.a)) if False else list_copy(s.opv(fr, ins.a))
    e = s.opv(fr, ins.e)
    cur = v
    for ix in ins.idx[:-1]: cur = cur[ix]
    cur[ins.idx[-1]] = e
    fr.regs[ins.res] = v; fr.ii += 1

def list_copy(v):
    if isinstance(v, list): return [list_copy(x) for x in v]
    return v

def h_freeze(s, fr, ins):
    fr.regs[ins.res] = s.opv(fr, ins.a); fr.ii += 1

def h_unreachable(s, fr, ins):
    raise Violation('ub', 'llvm unreachable executed in ' + fr.fn.name)

def h_fence(s, fr, ins): fr.ii += 1

def h_atomicrmw(s, fr, ins):
    p = s.opv(fr, ins.ptr); v = s.opv(fr, ins.val); old = s.load(p, ins.ty)
    bits = ins.ty.bits; mask = (1 << bits) - 1
    new = {'add': lambda: (old + v) & mask, 'sub': lambda: (old - v) & mask, 'xchg': lambda: v,
           'and': lambda: old & v, 'or': lambda: old | v, 'xor': lambda: old ^ v}[ins.rop]()
    s.store(p, ins.ty, new); fr.regs[ins.res] = old; fr.ii += 1

def h_cmpxchg(s, fr, ins):
    p = s.opv(fr, ins.ptr); c = s.opv(fr, ins.cmp); n = s.opv(fr, ins.new)
    old = s.load(p, ins.cmp.ty)
    ok = int(old == c)
    if ok: s.store(p, ins.cmp.ty, n)
    fr.regs[ins.res] = [old, ok]; fr.ii += 1

def h_resume(s, fr, ins):
    for p in fr.allocas:
        o = s.objs[p]; o.alive = False; o.data = {}
    s.stack.pop()
    s.unwind()

def h_landingpad(s, fr, ins):
    raise ExecError('landingpad reached by normal control flow')

def h_call(s, fr, ins):
    c = ins.callee
    if c.kind == 'global': name = c.v
    else:
        fp = s.opv(fr, c)
        if not isinstance(fp, FnPtr):
            raise Violation('memory', 'indirect call through non-function pointer %r' % (fp,))
        name = fp.name
    name = s.alias.get(name, name)
    f = s.m.funcs.get(name)
    ov = s.override.get(name, 0)
    if ov == 0:
        ov = None
        for rx, hh in OVERRIDE_PATTERNS:
            if rx.match(name): ov = hh; break
        s.override[name] = ov
    if ov is not None:
        args = [(None if isinstance(a.ty, TMeta) else s.opv(fr, a)) for a in ins.args]
        r = ov(s, fr, ins, args)
        if ins.res is not None and not isinstance(ins.ty, TVoid): fr.regs[ins.res] = r
        if ins.op == 'invoke': s.jump(fr, ins.normal)
        else: fr.ii += 1
        return
    if f is not None and f.is_def:
        args = [s.opv(fr, a) for a in ins.args]
        nf = Frame(f)
        for (t, p), a in zip(f.params, args): nf.regs[p] = a
        s.stack.append(nf)
        s.called.add(name)
        if len(s.stack) > 600: raise Violation('termination', 'call stack deeper than 600 frames (unbounded recursion?)')
        return
    h = EXTERNALS.get(name)
    if h is None:
        if name.startswith('@llvm.'):
            for pre, hh in INTRINSIC_PREFIX:
                if name.startswith(pre): h = hh; break
    if h is None:
        for rx, hh in EXTERNAL_PATTERNS:
            if rx.match(name): h = hh; break
    if h is None:
        raise ExecError('unmodelled external ' + name)
    args = [(None if isinstance(a.ty, TMeta) else s.opv(fr, a)) for a in ins.args]
    r = h(s, fr, ins, args)
    if r is CONTROL: return
    if ins.res is not None and not isinstance(ins.ty, TVoid): fr.regs[ins.res] = r
    if ins.op == 'invoke': s.jump(fr, ins.normal)
    else: fr.ii += 1

CONTROL = object()

DISPATCH = {'br': h_br, 'switch': h_switch, 'ret': h_ret, 'alloca': h_alloca, 'load': h_load, 'store': h_store,
            'gep': h_gep, 'bin': h_bin, 'fneg': h_fneg, 'icmp': h_icmp, 'fcmp': h_fcmp, 'cast': h_cast,
            'select': h_select, 'phi': h_phi, 'extractvalue': h_extractvalue, 'insertvalue': h_insertvalue,
            'freeze': h_freeze, 'unreachable': h_unreachable, 'fence': h_fence, 'atomicrmw': h_atomicrmw,
            'resume': h_resume, 'cmpxchg': h_cmpxchg, 'landingpad': h_landingpad, 'call': h_call, 'invoke': h_call}

# ---------------------------------------------------------------------- externals
def x_noop(s, fr, ins, a): return 0 if isinstance(ins.ty, TInt) else (a[0] if a and isinstance(ins.ty, TPtr) else None)
def x_malloc(s, fr, ins, a):
    n = a[0]
    if not isinstance(n, int): raise ExecError('symbolic allocation size')
    if n > (1 << 28): raise ExecError('huge allocation %d' % n)
    o = s.alloc(n, 'heap', name='heap@' + fr.fn.name)
    return Ptr(o.id, 0)
def x_calloc(s, fr, ins, a):
    o = s.alloc(a[0] * a[1], 'heap', zero=True); return Ptr(o.id, 0)
def x_free(s, fr, ins, a): s.free(a[0]); return None
def x_memcpy(s, fr, ins, a): s.memcpy(a[0], a[1], a[2]); return a[0]
def x_memset(s, fr, ins, a): s.memset(a[0], a[1], a[2]); return a[0]
def x_fabs(s, fr, ins, a):
    x = a[0]
    if isinstance(x, float): return abs(x)
    A = s.asF(x)
    lo = Fraction(0) if A.lo <= 0 <= A.hi else min(abs(A.lo), abs(A.hi))
    return SymF(z3.If(A.t >= 0, A.t, -A.t), lo, max(abs(A.lo), abs(A.hi)), A.ex, A.err)
def x_umax(s, fr, ins, a): return max(s.concretize(a[0]), s.concretize(a[1]))
def x_umin(s, fr, ins, a): return min(s.concretize(a[0]), s.concretize(a[1]))
def x_nondet_int(s, fr, ins, a):
    v = s.fresh_input('int')
    lo, hi = -(1 << 31), (1 << 31) - 1
    s.add_pc(z3.And(v >= lo, v <= hi))
    return SymI(v, lo, hi, 32)
def x_int_in(s, fr, ins, a):
    lo = sgn(a[0], 32); hi = sgn(a[1], 32)
    fx = s.opts.get('fixed_inputs')
    if fx is not None:
        v = int(fx[len(s.inputs)]); s.inputs.append(('in%d' % len(s.inputs), z3.IntVal(v), 'choice'))
        if not (lo <= v <= hi): raise PathEnd('assume_false')
        return v & 0xffffffff
    v = s.fresh_input('int'); s.add_pc(z3.And(v >= lo, v <= hi))
    s.in_ranges[s.inputs[-1][0]] = (lo, hi)
    return SymI(v, lo, hi, 32)
def x_double_in(s, fr, ins, a):
    lo = Fraction(a[0]); hi = Fraction(a[1])
    v = s.fresh_input('real'); s.add_pc(z3.And(v >= rv(lo), v <= rv(hi)))
    return SymF(v, lo, hi, None)
def x_choice(s, fr, ins, a):
    """unconstrained choice in [0,n): a pure fork (no solver variable: the path condition stays purely real)"""
    n = sgn(a[0], 32)
    fx = s.opts.get('fixed_inputs')
    if fx is not None:
        c = int(fx[len(s.inputs)]); s.inputs.append(('in%d' % len(s.inputs), z3.IntVal(c), 'choice')); return c
    c = n - 1
    for i in range(n - 1):
        if s.decide_free(): c = i; break
    s.inputs.append(('in%d' % len(s.inputs), z3.IntVal(c), 'choice'))
    return c
def x_band_nofork(s, fr, ins, a):
    s.band_nofork = bool(a[0] & 1); return None
def x_heap_order(s, fr, ins, a):
    s.heap_order = a[0] & 1; return None
def x_assume(s, fr, ins, a):
    c = a[0]
    if isinstance(c, SymB):
        if not s.check(c.t): raise PathEnd('assume_false')
        s.add_pc(c.t)
    elif isinstance(c, SymI):
        t = c.t != 0
        if not s.check(t): raise PathEnd('assume_false')
        s.add_pc(t)
    elif not (c & 0xffffffff): raise PathEnd('assume_false')
    return None
def x_assert(s, fr, ins, a):
    c = a[0]
    msg = s.cstring(a[1])
    s.stats['asserts'] += 1
    s.check_sites[msg] += 1
    if c is UNDEF or isinstance(c, PU): raise Violation('uninit', 'CHECK on uninitialised value: ' + msg)
    if isinstance(c, (SymB, SymI)):
        t = c.t if isinstance(c, SymB) else c.t != 0
        must = c.must if isinstance(c, SymB) else t
        s.last_assert_t = t
        s.stats['assert_queries'] += 1
        if s.check(z3.Not(must)):
            if os.environ.get('IRSYM_DEBUG'): print('DEBUG candidate for', msg, flush=True)
            # prefer an input for which this path is certainly the one executed (every banded floating-point comparison on it
            # decided with margin); fall back to a model that only satisfies the over-approximated path condition
            strict = [c for c in s.band_strict if not z3.is_true(c)]
            m = None; bandpath = False
            if strict and not any(z3.is_false(c) for c in strict):
                try: m = s.int_model(z3.And(z3.Not(must), *strict))
                except ExecError: m = None
            if m is None:
                try:
                    m = s.int_model(z3.Not(must)); bandpath = bool(strict)
                except ExecError:
                    # the integer re-solve gave up: hand the rounded relaxed model to the native replay (which decides)
                    if not s.check(z3.Not(must), use_cache=False): m = None
                    else:
                        m = [(n, k, (Fraction(round(fr)) if k != 'real' else fr)) for (n, k, fr) in s.model()]
                        bandpath = True; s.stats['assert_model_rounded'] += 1
            if os.environ.get('IRSYM_DEBUG'):
                print('DEBUG   integer model', [str(x[2]) for x in m] if m else None, flush=True)
                if os.environ.get('IRSYM_DEBUG') == '2': print('DEBUG   formula', t, '\nPC', s.pc, flush=True)
            if m is not None:
                band = isinstance(c, SymB) and not c.exact() and not s.check(z3.Not(t))
                s.violations.append(('assert-band' if band else ('assert-bandpath' if bandpath else 'assert'), msg, '', m))
            if not s.check(t): raise PathEnd('assert_always_fails' if m is not None else 'infeasible_over_integers')
        s.add_pc(t)
    elif not (c & 0xffffffff):
        m = s.int_model()
        if m is None: raise PathEnd('infeasible_over_integers')
        s.violations.append(('assert', msg, '', m))
    return None
def x_out(s, fr, ins, a):
    v = a[0]
    if isinstance(v, int) and not isinstance(v, bool) and ins.callee.v == '@verif_out_int': v = sgn(v, 32)
    s.outputs.append(v); return None
def x_assert_fail(s, fr, ins, a):
    raise Violation('assertion', 'library assertion failed: %s (%s:%s)' % (s.cstring(a[0]), s.cstring(a[1]), a[2]))
def x_abort(s, fr, ins, a): raise Violation('abort', 'abort() called')
def x_terminate(s, fr, ins, a): raise Violation('abort', 'std::terminate called')
def x_throw_std(s, fr, ins, a): raise Violation('abort', 'libstdc++ __throw_* helper reached: ' + ins.callee.v)
def x_cxa_throw(s, fr, ins, a):
    s.exc = [a[0], a[1], a[2], False]; s.stats['throws'] += 1
    s.unwind(); return CONTROL
def x_begin_catch(s, fr, ins, a): s.caught.append(s.exc); return a[0]
def x_end_catch(s, fr, ins, a):
    if not s.caught: raise ExecError('__cxa_end_catch without a caught exception')
    e = s.caught.pop()
    if e[3]:
        e[3] = False            # rethrown: the exception is in flight again, it stays alive
        return None
    ptr, dtor = e[0], e[2]
    if isinstance(dtor, FnPtr):
        # run the thrown object's destructor, then release the exception memory, then continue after this call
        f = s.m.funcs.get(s.alias.get(dtor.name, dtor.name))
        if (f is None or not f.is_def) and re.match(r'^@_ZNSt(13runtime_error|11logic_error|12out_of_range|16invalid_argument|12domain_error|9exception)D[012]Ev$', dtor.name):
            s.free(ptr); return None          # libstdc++ exception object: nothing owned in the model
        if f is None or not f.is_def: raise ExecError('exception destructor %s not defined' % dtor.name)
        nf = Frame(f); nf.regs[f.params[0][1]] = ptr
        nf.on_ret = lambda: s.free(ptr)
        s.stack.append(nf)
        return CONTROL
    s.free(ptr)
    return None
def x_rethrow(s, fr, ins, a):
    if not s.caught: raise Violation('abort', '__cxa_rethrow with no active exception (std::terminate)')
    e = s.caught[-1]; e[3] = True
    s.exc = e; s.unwind(); return CONTROL
def x_typeid_for(s, fr, ins, a):
    p = a[0]; return 0x7ffe if p == NULL else p.obj
def x_sqrt(s, fr, ins, a):
    x = a[0]
    if isinstance(x, float): return math.sqrt(x) if x >= 0 else float('nan')
    X = s.asF(x)
    if X.lo < 0:
        if X.hi < 0: return float('nan')
        # the interval may dip below zero only through rounding slack of a sum of squares: ask the solver
        if s.check(X.t < -X.err): raise ExecError('sqrt of a symbolic value that may be negative')
        X = SymF(X.t, Fraction(0), X.hi, X.ex, X.err)
    # fresh real r >= 0 with r*r == t (definitional constraint, part of the path condition); IEEE sqrt is correctly rounded
    s.nfresh = getattr(s, 'nfresh', 0) + 1
    r = z3.Real('sqrt%d_%d' % (len(s.decisions), s.nfresh))
    s.add_pc(z3.And(r >= 0, r * r == X.t)); s.nl = True
    s.stats['symbolic_sqrt'] += 1
    def isq(fr, up_):
        f = math.sqrt(float(fr)); g = Fraction(math.nextafter(f, INF if up_ else -INF)) if f > 0 or up_ else Fraction(0)
        g = Fraction(math.nextafter(float(g), INF if up_ else -INF)) if g > 0 or up_ else Fraction(0)
        return max(g, Fraction(0))
    lo = isq(X.lo, False); hi = isq(X.hi, True)
    if X.err == 0: perr = Fraction(0)
    elif lo > 0: perr = X.err / lo
    else: perr = isq(X.err, True)
    if lo * lo > X.lo or hi * hi < X.hi: raise ExecError('internal: sqrt interval not sound')
    return s.mk(r, lo, hi, None, perr)

def cstring(s, p):
    if not isinstance(p, Ptr) or p.obj == 0: return '?'
    o = s.objs.get(p.obj); out = []
    a = p.off
    while a < o.size and len(out) < 200:
        c = o.data.get(a)
        if c is None:
            # maybe inside a larger cell
            break
        if c[0] != 1: s.explode(o, a); c = o.data.get(a)
        if c[1] == 0: break
        out.append(chr(c[1])); a += 1
    return ''.join(out)
Machine.cstring = cstring

def x_dynamic_cast(s, fr, ins, a):
    p, src, dst = a[0], a[1], a[2]
    if p == NULL: return NULL
    vptr = s.load(p, TPtr(TInt(8)))
    if not isinstance(vptr, Ptr): raise Violation('memory', 'dynamic_cast on object without vptr')
    ott = s.load(Ptr(vptr.obj, vptr.off - 16), TInt(64))
    ti = s.load(Ptr(vptr.obj, vptr.off - 8), TPtr(TInt(8)))
    if ott != 0: raise ExecError('dynamic_cast with non-zero offset-to-top')
    return p if s.ti_matches(ti, dst) else NULL
def x_math1(fn):
    def h(s, fr, ins, a):
        if isinstance(a[0], float):
            try: return fn(a[0])
            except (ValueError, OverflowError): return float('nan')
        raise ExecError('transcendental function of symbolic value')
    return h
def x_math2(fn):
    def h(s, fr, ins, a):
        if isinstance(a[0], float) and isinstance(a[1], float):
            try: return fn(a[0], a[1])
            except (ValueError, OverflowError): return float('nan')
        raise ExecError('transcendental function of symbolic value')
    return h
def x_atan2(s, fr, ins, a):
    y, x = a[0], a[1]
    if isinstance(y, float) and isinstance(x, float): return math.atan2(y, x)
    Y = s.asF(y); X = s.asF(x)
    if Y.err != 0 or X.err != 0: raise ExecError('atan2 of inexact symbolic values')
    zero = z3.RealVal(0)
    # case split on exact sign pattern (axis cases are exact in libm); general case unsupported here
    ys = 0 if s.decide(SymB(Y.t == zero)) else (1 if s.decide(SymB(Y.t > zero)) else -1)
    xs = 0 if s.decide(SymB(X.t == zero)) else (1 if s.decide(SymB(X.t > zero)) else -1)
    s.stats['atan2_cases'] += 1
    if ys == 0: return 0.0 if xs >= 0 else math.pi
    if xs == 0: return math.pi / 2 if ys > 0 else -math.pi / 2
    raise ExecError('atan2 of symbolic non-axis direction')
def x_abs_int(s, fr, ins, a):
    bits = ins.ty.bits; v = sgn(a[0], bits); return abs(v) & ((1 << bits) - 1)
def x_ctlz(s, fr, ins, a):
    bits = ins.ty.bits; return bits - a[0].bit_length()
def x_umul_ov(s, fr, ins, a):
    bits = ins.ty.fields[0].bits; r = a[0] * a[1]; return [r & ((1 << bits) - 1), int(r >> bits != 0)]
def x_trap(s, fr, ins, a): raise Violation('ub', 'llvm.trap executed')
def x_pure(s, fr, ins, a): raise Violation('ub', 'pure virtual call')
import re
EXTERNALS = {
    '@__dynamic_cast': x_dynamic_cast, '@clock': lambda s, fr, ins, a: 0, '@__cxa_pure_virtual': x_pure,
    '@atan': x_math1(math.atan), '@cos': x_math1(math.cos), '@sin': x_math1(math.sin), '@log10': x_math1(math.log10),
    '@acos': x_math1(math.acos), '@atan2': x_atan2, '@pow': x_math2(math.pow), '@log': x_math1(math.log),
    '@floor': x_math1(math.floor), '@ceil': x_math1(math.ceil),
    '@puts': x_noop, '@fputc': x_noop, '@fwrite': x_noop, '@vfprintf': x_noop,
    '@_Znwm': x_malloc, '@_Znam': x_malloc, '@malloc': x_malloc, '@calloc': x_calloc,
    '@_ZdlPv': x_free, '@_ZdaPv': x_free, '@free': x_free, '@_ZdlPvm': x_free, '@_ZdaPvm': x_free,
    '@memcpy': x_memcpy, '@memmove': x_memcpy, '@memset': x_memset,
    '@fabs': x_fabs, '@sqrt': x_sqrt,
    '@nondet_int': x_nondet_int, '@verif_int_in': x_int_in, '@verif_double_in': x_double_in,
    '@verif_choice': x_choice, '@verif_heap_order': x_heap_order, '@verif_band_nofork': x_band_nofork,
    '@__CPROVER_assume': x_assume, '@__CPROVER_assert': x_assert,
    '@verif_out_double': x_out, '@verif_out_int': x_out,
    '@__assert_fail': x_assert_fail, '@abort': x_abort, '@_ZSt9terminatev': x_terminate,
    '@__cxa_allocate_exception': x_malloc, '@__cxa_free_exception': x_free, '@__cxa_throw': x_cxa_throw,
    '@__cxa_begin_catch': x_begin_catch, '@__cxa_get_exception_ptr': lambda s, fr, ins, a: a[0],
    '@__cxa_end_catch': x_end_catch, '@__cxa_rethrow': x_rethrow,
    '@__cxa_atexit': x_noop,
}
INTRINSIC_PREFIX = [
    ('@llvm.lifetime', x_noop), ('@llvm.dbg', x_noop), ('@llvm.experimental.noalias', x_noop), ('@llvm.assume', x_noop),
    ('@llvm.invariant', x_noop),
    ('@llvm.memcpy', x_memcpy), ('@llvm.memmove', x_memcpy), ('@llvm.memset', x_memset),
    ('@llvm.fabs', x_fabs), ('@llvm.umax', x_umax), ('@llvm.umin', x_umin), ('@llvm.eh.typeid.for', x_typeid_for),
    ('@llvm.sqrt', x_sqrt), ('@llvm.abs', x_abs_int), ('@llvm.ctlz', x_ctlz), ('@llvm.umul.with.overflow', x_umul_ov),
    ('@llvm.trap', x_trap), ('@llvm.va_start', x_noop), ('@llvm.va_end', x_noop),
    ('@llvm.floor', x_math1(math.floor)), ('@llvm.ceil', x_math1(math.ceil)),
]
def x_str_sret(s, fr, ins, a):
    o = a[0]
    s.store(o, TPtr(TInt(8)), Ptr(o.obj, o.off + 16)); s.store(Ptr(o.obj, o.off + 8), TInt(64), 0); s.store(Ptr(o.obj, o.off + 16), TInt(8), 0)
    return None
def x_str_assign(s, fr, ins, a):
    dst, src = a[0], a[1]
    I64 = TInt(64); P8 = TPtr(TInt(8))
    n = s.load(Ptr(src.obj, src.off + 8), I64); sp = s.load(src, P8)
    dp = s.load(dst, P8)
    local = Ptr(dst.obj, dst.off + 16)
    cap = 15 if dp == local else s.load(Ptr(dst.obj, dst.off + 16), I64)
    if n > cap:
        if dp != local: s.free(dp)
        o = s.alloc(n + 1, 'heap', name='string'); dp = Ptr(o.id, 0)
        s.store(dst, P8, dp); s.store(Ptr(dst.obj, dst.off + 16), I64, n)
    if n: s.memcpy(dp, sp, n)
    s.store(Ptr(dp.obj, dp.off + n), TInt(8), 0); s.store(Ptr(dst.obj, dst.off + 8), I64, n)
    return None
EXTERNAL_PATTERNS = [
    (re.compile(r'^@_ZNSt7__cxx1112basic_stringIcSt11char_traitsIcESaIcEE9_M_assignERKS4_$'), x_str_assign),
    (re.compile(r'^@_ZNKSt7__cxx111[89]basic_o?stringstream.*3strEv$'), x_str_sret),
    (re.compile(r'^@_ZNSt7__cxx111[89]basic_o?stringstream.*$'), x_noop),
    (re.compile(r'^@(_ZNSt8ios_base4Init[CD]1Ev|_ZNSo.*|_ZSt16__ostream_insert.*|_ZNSt8ios_baseD2Ev|_ZNSt6locale[CD]1Ev|_ZNSt9basic_iosIcSt11char_traitsIcEE.*|printf|fprintf|puts|fflush)$'), x_noop),
    (re.compile(r'^@_ZSt\d+__throw_.*'), x_throw_std),
    # constructors / destructors of libstdc++ exception classes thrown by the libraries themselves (what() is never read)
    (re.compile(r'^@_ZNSt(13runtime_error|11logic_error|12out_of_range|16invalid_argument|12domain_error|9exception)[CD][012]E.*$'), x_noop),
]
import strmodels
EXTERNAL_PATTERNS = strmodels.PATTERNS + EXTERNAL_PATTERNS
Machine.ExecError = ExecError
def x_rotational_angle(s, fr, ins, a):
    """model of Avoid::rotationalAngle(Point) for symbolic points: the exact angle in degrees as a fresh real constrained by
    quadrant and by its order relative to the diagonals 45/135/225/315 (the only values its callers compare it with).
    For exact (integer/dyadic) coordinates below 2^20 the libm evaluation atan(y/x)*180/M_PI decides those comparisons
    exactly like the exact angle does (ratios differ from +-1 by >= 2^-20, far above the rounding error; on the diagonals the
    FP result is exactly 45/135/225/315) -- native replay of every path cross-checks this."""
    p = a[0]
    x = s.load(p, TFloat('double')); y = s.load(Ptr(p.obj, p.off + 8), TFloat('double'))
    if isinstance(x, float) and isinstance(y, float):
        if y == 0: return 180.0 if x < 0 else 0.0
        if x == 0: return 270.0 if y < 0 else 90.0
        ang = math.atan(y / x); ang = (ang * 180) / math.pi
        if x < 0: ang += 180
        elif y < 0: ang += 360
        return ang
    X = s.asF(x); Y = s.asF(y)
    if X.err != 0 or Y.err != 0: raise ExecError('rotationalAngle of inexact symbolic point')
    z = z3.RealVal(0)
    if s.decide(SymB(Y.t == z)): return 180.0 if s.decide(SymB(X.t < z)) else 0.0
    if s.decide(SymB(X.t == z)): return 270.0 if s.decide(SymB(Y.t < z)) else 90.0
    xpos = s.decide(SymB(X.t > z)); ypos = s.decide(SymB(Y.t > z))
    s.nfresh = getattr(s, 'nfresh', 0) + 1
    ang = z3.Real('ang%d_%d' % (len(s.decisions), s.nfresh))
    if xpos and ypos: lo, hi, d, below = 0, 90, 45, Y.t < X.t
    elif (not xpos) and ypos: lo, hi, d, below = 90, 180, 135, Y.t > -X.t
    elif (not xpos) and (not ypos): lo, hi, d, below = 180, 270, 225, Y.t > X.t
    else: lo, hi, d, below = 270, 360, 315, -Y.t > X.t
    eq = (Y.t == X.t) if d in (45, 225) else (Y.t == -X.t)
    s.add_pc(z3.And(ang > lo, ang < hi, (ang < d) == below, (ang == d) == eq))
    s.stats['rotational_angle_model'] += 1
    return SymF(ang, Fraction(lo), Fraction(hi), None, Fraction(0))

# defined functions whose bodies are replaced by stubs (formatting / logging is never the subject of a claim)
OVERRIDE_PATTERNS = [
    # operator<<(std::ostream&, T const&) of the libraries' own types
    (re.compile(r'^@_ZN(4vpsc|5Avoid|4cola|8topology|7dialect)lsERSoRK.*'), lambda s, fr, ins, a: a[0]),
    (re.compile(r'^@_ZN5Avoid15rotationalAngleERKNS_5PointE$'), x_rotational_angle),
]
DEFAULT_ALIASES = {
    '@_ZSt18_Rb_tree_incrementPSt18_Rb_tree_node_base': '@__model_rb_increment',
    '@_ZSt18_Rb_tree_incrementPKSt18_Rb_tree_node_base': '@__model_rb_increment',
    '@_ZSt18_Rb_tree_decrementPSt18_Rb_tree_node_base': '@__model_rb_decrement',
    '@_ZSt18_Rb_tree_decrementPKSt18_Rb_tree_node_base': '@__model_rb_decrement',
    '@_ZSt29_Rb_tree_insert_and_rebalancebPSt18_Rb_tree_node_baseS0_RS_': '@__model_rb_insert',
    '@_ZSt28_Rb_tree_rebalance_for_erasePSt18_Rb_tree_node_baseRS_': '@__model_rb_erase',
    '@_ZNSt8__detail15_List_node_base7_M_hookEPS0_': '@__model_list_hook',
    '@_ZNSt8__detail15_List_node_base9_M_unhookEv': '@__model_list_unhook',
    '@_ZNSt8__detail15_List_node_base11_M_transferEPS0_S1_': '@__model_list_transfer',
    '@_ZNSt8__detail15_List_node_base4swapERS0_S1_': '@__model_list_swap',
    '@qsort': '@__model_qsort',
}


# ---------------------------------------------------------------------- exploration driver
def fmt_val(kind, fr):
    """text of one input value in a replay file (read back by native_rt.c with strtod)"""
    if kind == 'real':
        return float(fr).hex()
    return str(int(fr)) if fr.denominator == 1 else repr(float(fr))

def write_replay(path, vals):
    with open(path, 'w') as f:
        for (n, k, fr) in vals: f.write(fmt_val(k, fr) + '\n')

def run_native(exe, vals, timeout=60):
    """run the native build of the harness on an input vector; returns (exit code, [(tag, text)])"""
    fd, path = tempfile.mkstemp(prefix='irsym_', suffix='.in', dir=os.environ.get('VERIF_TMP', None))
    os.close(fd)
    try:
        write_replay(path, vals)
        env = dict(os.environ); env['VERIF_REPLAY'] = path
        try:
            r = subprocess.run([exe], env=env, stdout=subprocess.PIPE, stderr=subprocess.PIPE, timeout=timeout)
        except subprocess.TimeoutExpired:
            return -999, [], 'timeout'
        out = []
        for line in r.stdout.decode(errors='replace').splitlines():
            sp = line.split(' ', 1)
            if sp[0] in ('D', 'I', 'ASSERT-FAIL', 'ASSUME-FALSE'): out.append((sp[0], sp[1] if len(sp) > 1 else ''))
        return r.returncode, out, r.stderr.decode(errors='replace')[-2000:]
    finally:
        os.unlink(path)


class PathSummary:
    pass


def validate_path(M, exe):
    """run this path's model through the native binary; compare every verif_out_* value.
    returns 'ok' | 'skipped:<why>' | 'mismatch:<what>'"""
    strict = [c for c in M.band_strict if not z3.is_true(c)]
    if any(z3.is_false(c) for c in strict): return 'skipped:path exists only inside a rounding band'
    vals = M.int_model(z3.And(*strict) if strict else None)
    if vals is None: return 'skipped:no integral model' if not strict else 'skipped:path exists only inside a rounding band'
    # snap double inputs to doubles
    snapped = [(n, k, (Fraction(float(fr)) if k == 'real' else fr)) for (n, k, fr) in vals]
    if snapped != vals:
        if not M.holds_under(snapped, z3.And(*strict) if strict else None): return 'skipped:model not representable as doubles on this path'
        vals = snapped
    sub = M.subst(vals)
    rc, out, err = run_native(exe, vals)
    if rc == 3 and M.opts.get('native_assume_false_ok'):
        return 'skipped:native run left the assumed region (address-dependent tie-break in the code under test)'
    if rc != 0:
        return 'mismatch:native exit code %d (%s)' % (rc, err.strip().splitlines()[-1] if err.strip() else '')
    nat = [(t, x) for (t, x) in out if t in ('D', 'I')]
    fails = [x for (t, x) in out if t == 'ASSERT-FAIL']
    sym_fail = set(v[1] for v in M.violations if v[0].startswith('assert'))
    for f_ in fails:
        if f_ not in sym_fail: return 'mismatch:native run fails CHECK "%s" that the symbolic path passed' % f_
    if len(nat) != len(M.outputs):
        return 'mismatch:native printed %d outputs, symbolic path has %d' % (len(nat), len(M.outputs))
    for i, ((t, x), o) in enumerate(zip(nat, M.outputs)):
        ev, tol = M.eval_out(o, sub)
        if ev is None: return 'mismatch:output %d not evaluable' % i
        try: nv = Fraction(float(x)) if t == 'D' else Fraction(int(x))
        except (ValueError, OverflowError):
            if isinstance(ev, float) and repr(ev).replace('inf', 'inf') == x.strip(): continue
            return 'mismatch:output %d native=%s symbolic=%s' % (i, x, ev)
        if isinstance(ev, float): return 'mismatch:output %d native=%s symbolic=%s' % (i, x, ev)
        if abs(nv - ev) > tol + Fraction(1, 10 ** 300):
            return 'mismatch:output %d native=%s symbolic=%s tol=%g' % (i, x, float(ev), float(tol))
    return 'ok'


_G = {}

def _explore_chunk(args):
    """worker: DFS from the given prefixes for at most budget seconds; returns summary + frontier"""
    prefixes, budget, exe, validate_every = args
    M = _G['M']; entry = _G['entry']
    t0 = time.time()
    work = list(prefixes)
    R = dict(paths=0, results=collections.Counter(), steps=0, stats=collections.Counter(), violations=[], errors=[],
             called=set(), check_sites=collections.Counter(), validated=0, val_skipped=collections.Counter(),
             mismatches=[], samples=[], decisions=0, notes=set())
    while work and (time.time() - t0 < budget or R['paths'] == 0):
        prefix = work.pop()
        M.stats = collections.Counter()
        try:
            res = M.run_path(entry, prefix)
        except ExecError as e:
            where = ' <- '.join(f.fn.name for f in reversed(M.stack[-8:]))
            R['errors'].append((str(e), where, list(M.decisions)))
            res = 'engine_error'
        except z3.Z3Exception as e:
            R['errors'].append(('z3: ' + str(e), '', list(M.decisions))); res = 'engine_error'
        R['paths'] += 1; R['results'][res.split(':')[0]] += 1; R['steps'] += M.nsteps
        R['decisions'] += len(M.decisions) - len(prefix) if len(M.decisions) >= len(prefix) else 0
        R['called'] |= M.called; R['check_sites'].update(M.check_sites); R['notes'] |= M.notes
        work.extend(M.new_prefixes)
        for (kind, msg, where, model) in M.violations:
            R['violations'].append((kind, msg, where, [(n, k, str(fr)) for (n, k, fr) in model] if model else None, list(M.decisions)))
        if res == 'ok' and exe and (R['paths'] % validate_every == 0 or len(R['samples']) < 2):
            try:
                v = validate_path(M, exe)
            except ExecError as e:
                v = 'skipped:' + str(e)
            if v == 'ok': R['validated'] += 1
            elif v.startswith('skipped'): R['val_skipped'][v] += 1
            else:
                try: iv = [str(fr) for (n_, k_, fr) in (M.int_model() or [])]
                except Exception: iv = []
                R['mismatches'].append((v + ' [inputs: %s]' % ' '.join(iv), list(M.decisions)))
        if res == 'ok' and len(R['samples']) < 2:
            try:
                vals = M.int_model()
                outs = []
                if vals:
                    sub_ = M.subst(vals)
                    for o in M.outputs[:12]:
                        try:
                            ev_, tol_ = M.eval_out(o, sub_)
                            outs.append(repr(float(ev_)) if ev_ is not None else '?')
                        except Exception:
                            outs.append('symbolic')
                R['samples'].append(dict(inputs=[fmt_val(k, fr) for (n, k, fr) in vals] if vals else None,
                                         outputs_under_these_inputs=outs, symbolic_outputs=sum(1 for o in M.outputs if isinstance(o, (SymF, SymI, SymB))),
                                         decisions=len(M.decisions), steps=M.nsteps))
            except ExecError:
                pass
        R['stats'].update(M.stats)
    R['frontier'] = work
    return R


def explore(ll_path, entry='@harness', opts=None, workers=16, exe=None, max_paths=None, time_limit=None,
            validate_every=1, chunk_s=2.0, log=None):
    """explore all feasible paths of entry; returns the merged summary (see _explore_chunk)"""
    import multiprocessing as mp
    t0 = time.time()
    m = Parser(open(ll_path).read()).parse_module()
    parse_s = time.time() - t0
    _G['M'] = Machine(m, opts); _G['entry'] = entry
    T = dict(paths=0, results=collections.Counter(), steps=0, stats=collections.Counter(), violations=[], errors=[],
             called=set(), check_sites=collections.Counter(), validated=0, val_skipped=collections.Counter(),
             mismatches=[], samples=[], decisions=0, notes=set())
    def merge(R):
        for k in ('paths', 'steps', 'validated', 'decisions'): T[k] += R[k]
        for k in ('results', 'stats', 'check_sites', 'val_skipped'): T[k].update(R[k])
        for k in ('violations', 'errors', 'mismatches'): T[k].extend(R[k])
        T['called'] |= R['called']; T['notes'] |= R['notes']
        if len(T['samples']) < 4: T['samples'].extend(R['samples'][:4 - len(T['samples'])])
    frontier = [[]]
    exhausted = True
    if workers <= 1:
        while frontier:
            R = _explore_chunk((frontier, chunk_s, exe, validate_every)); merge(R); frontier = R['frontier']
            if (max_paths and T['paths'] >= max_paths) or (time_limit and time.time() - t0 > time_limit):
                exhausted = not frontier; break
    else:
        ctx = mp.get_context('fork')
        with ctx.Pool(workers) as pool:
            pending = []
            stop = False
            while frontier or pending:
                while frontier and len(pending) < workers * 2 and not stop:
                    # hand out the deepest prefixes first, a few per chunk
                    n = max(1, min(4, len(frontier) // (workers * 2)))
                    batch = [frontier.pop() for _ in range(min(n, len(frontier)))]
                    bud = 0.15 if (T['paths'] < workers * 6 or len(frontier) < workers) else chunk_s
                    pending.append(pool.apply_async(_explore_chunk, ((batch, bud, exe, validate_every),)))
                if not pending: break
                done = [p for p in pending if p.ready()]
                if not done:
                    time.sleep(0.005); continue
                for p in done:
                    pending.remove(p)
                    R = p.get(); merge(R); frontier.extend(R['frontier'])
                if (max_paths and T['paths'] >= max_paths) or (time_limit and time.time() - t0 > time_limit):
                    stop = True
                if stop and not pending: break
                if log and T['paths'] and T['paths'] % 500 < 8: log('  ... %d paths, frontier %d' % (T['paths'], len(frontier)))
            exhausted = not frontier
    T['exhausted'] = exhausted; T['pending'] = len(frontier)
    T['wall_s'] = time.time() - t0; T['parse_s'] = parse_s
    return T


def main():
    import argparse
    ap = argparse.ArgumentParser()
    ap.add_argument('ll'); ap.add_argument('--entry', default='@harness'); ap.add_argument('-v', action='store_true')
    ap.add_argument('--max-paths', type=int, default=None)
    ap.add_argument('--relax-int', action='store_true')
    ap.add_argument('--workers', type=int, default=1)
    ap.add_argument('--exe', default=None)
    a = ap.parse_args()
    r = explore(a.ll, a.entry, opts={'relax_int': a.relax_int}, workers=a.workers, exe=a.exe, max_paths=a.max_paths)
    v = r.pop('violations'); called = r.pop('called')
    print({k: (dict(x) if isinstance(x, collections.Counter) else x) for k, x in r.items()})
    print('functions reached:', len(called))
    for x in v[:10]: print('VIOL', x[:4])
    print('violations:', len(v))

if __name__ == '__main__':
    main()
