#include <stdint.h>
/* ---- red-black tree (libstdc++ node layout), unbalanced BST semantics ---- */
struct rbn { int32_t color; struct rbn *parent, *left, *right; };
enum { RB_RED = 0, RB_BLACK = 1 };

void *__model_rb_increment(void *x_) {
    struct rbn *x = (struct rbn *)x_;
    if (x->right != 0) {
        x = x->right;
        while (x->left != 0) x = x->left;
    } else {
        struct rbn *y = x->parent;
        while (x == y->right) { x = y; y = y->parent; }
        if (x->right != y) x = y;
    }
    return x;
}
void *__model_rb_decrement(void *x_) {
    struct rbn *x = (struct rbn *)x_;
    if (x->color == RB_RED && x->parent->parent == x) x = x->right;
    else if (x->left != 0) {
        struct rbn *y = x->left;
        while (y->right != 0) y = y->right;
        x = y;
    } else {
        struct rbn *y = x->parent;
        while (x == y->left) { x = y; y = y->parent; }
        x = y;
    }
    return x;
}
void __model_rb_insert(uint8_t insert_left, void *x_, void *p_, void *h_) {
    struct rbn *x = x_, *p = p_, *header = h_;
    x->parent = p; x->left = 0; x->right = 0; x->color = RB_RED;
    if (insert_left) {
        p->left = x;
        if (p == header) { header->parent = x; header->right = x; }
        else if (p == header->left) header->left = x;
    } else {
        p->right = x;
        if (p == header->right) header->right = x;
    }
    /* no rebalancing: ordering/iteration semantics do not depend on balance.
       keep the libstdc++ convention root=black, header=red (used by decrement). */
    header->parent->color = RB_BLACK;
    if (x != header->parent) x->color = RB_RED;
}
void *__model_rb_erase(void *z_, void *h_) {
    struct rbn *z = z_, *header = h_;
    struct rbn *y = z, *x = 0;
    if (y->left == 0) x = y->right;
    else if (y->right == 0) x = y->left;
    else { y = y->right; while (y->left != 0) y = y->left; x = y->right; }
    if (y != z) {
        z->left->parent = y; y->left = z->left;
        if (y != z->right) {
            if (x) x->parent = y->parent;
            y->parent->left = x;
            y->right = z->right; z->right->parent = y;
        }
        if (header->parent == z) header->parent = y;
        else if (z->parent->left == z) z->parent->left = y;
        else z->parent->right = y;
        y->parent = z->parent;
        { int32_t c = y->color; y->color = z->color; z->color = c; }
        y = z;
    } else {
        if (x) x->parent = y->parent;
        if (header->parent == z) header->parent = x;
        else if (z->parent->left == z) z->parent->left = x;
        else z->parent->right = x;
        if (header->left == z) {
            if (z->right == 0) header->left = z->parent;
            else { struct rbn *m = x; while (m->left != 0) m = m->left; header->left = m; }
        }
        if (header->right == z) {
            if (z->left == 0) header->right = z->parent;
            else { struct rbn *m = x; while (m->right != 0) m = m->right; header->right = m; }
        }
    }
    if (header->parent) header->parent->color = RB_BLACK;
    return y;
}

/* ---- std::list hooks ---- */
struct lnb { struct lnb *next, *prev; };
void __model_list_hook(void *self_, void *pos_) {
    struct lnb *self = self_, *pos = pos_;
    self->next = pos; self->prev = pos->prev; pos->prev->next = self; pos->prev = self;
}
void __model_list_unhook(void *self_) {
    struct lnb *self = self_;
    struct lnb *n = self->next, *p = self->prev;
    p->next = n; n->prev = p;
}
void __model_list_transfer(void *self_, void *first_, void *last_) {
    struct lnb *self = self_, *first = first_, *last = last_;
    if (self != last) {
        last->prev->next = self; first->prev->next = last; self->prev->next = first;
        struct lnb *tmp = self->prev;
        self->prev = last->prev; last->prev = first->prev; first->prev = tmp;
    }
}


void __model_list_swap(void *x_, void *y_) {
    struct lnb *x = x_, *y = y_;
    if (x->next != x) {
        if (y->next != y) {
            struct lnb *t;
            t = x->next; x->next = y->next; y->next = t;
            t = x->prev; x->prev = y->prev; y->prev = t;
            x->next->prev = x->prev->next = x;
            y->next->prev = y->prev->next = y;
        } else {
            y->next = x->next; y->prev = x->prev;
            y->next->prev = y->prev->next = y;
            x->next = x->prev = x;
        }
    } else if (y->next != y) {
        x->next = y->next; x->prev = y->prev;
        x->next->prev = x->prev->next = x;
        y->next = y->prev = y;
    }
}
/* qsort: insertion sort (order of equal elements unspecified by the standard) */
void __model_qsort(void *base_, uint64_t n, uint64_t sz, int (*cmp)(const void *, const void *)) {
    uint8_t *base = base_;
    for (uint64_t i = 1; i < n; i++) {
        uint64_t j = i;
        while (j > 0 && cmp(base + (j - 1) * sz, base + j * sz) > 0) {
            for (uint64_t k = 0; k < sz; k++) { uint8_t t = base[(j - 1) * sz + k]; base[(j - 1) * sz + k] = base[j * sz + k]; base[j * sz + k] = t; }
            j--;
        }
    }
}
