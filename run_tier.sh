#!/bin/sh
# usage: ./run_tier.sh quick|thorough [props...]   -- runs the registered checks one after another, logs under /tmp/verif_logs
TIER=$1; shift
PROPS=${@:-$(python3 -c "import json;print(' '.join(c['property_id'] for c in json.load(open('/verif/MANIFEST.json'))['checks']))")}
mkdir -p /tmp/verif_logs
for p in $PROPS; do
  s=$(date +%s)
  timeout ${TMO:-3600} /verif/check $p --tier $TIER > /tmp/verif_logs/$p.$TIER.log 2>&1
  rc=$?
  e=$(date +%s)
  echo "$p $TIER exit=$rc wall=$((e-s))s $(grep -c '^VIOLATION' /tmp/verif_logs/$p.$TIER.log) violations $(grep -c '^INCONCLUSIVE' /tmp/verif_logs/$p.$TIER.log) inconclusive" | tee -a /tmp/verif_logs/summary.$TIER.txt
done
