#!/usr/bin/env python3
"""regenerates MANIFEST.json from jobs.py + the per-property texts below"""
import json, sys, os
sys.path.insert(0, os.path.join(os.path.dirname(os.path.abspath(__file__)), 'engine'))
sys.path.insert(0, os.path.dirname(os.path.abspath(__file__)))
import importlib
TEXT = json.load(open(os.path.join(os.path.dirname(os.path.abspath(__file__)), 'manifest_text.json')))
props = [json.loads(l)['id'] for l in open(os.path.join(os.path.dirname(os.path.abspath(__file__)), 'properties.jsonl'))]
checks = []; na = []
for p in props:
    t = TEXT.get(p, {})
    if t.get('claimed'):
        checks.append(dict(property_id=p, quick_cmd='./check %s --tier quick' % p, thorough_cmd='./check %s --tier thorough' % p,
                           evidence_file='evidence/%s.json' % p, replay_cmd_template='./check %s --replay {path}' % p,
                           engine='irsym', level_claimed=dict(category='model_checking', text=t['level_text'], design_ref=t.get('design_ref', 'DESIGN.md section 5')),
                           level_note=t['level_note'], technique=t.get('technique', 'path-wise symbolic execution of the LLVM IR of the real code, every branch and assertion decided by z3 (SMT); counterexamples replayed on the native build')))
    else:
        na.append(dict(property_id=p, reason=t.get('na_reason', 'no check built yet')))
M = dict(version=1,
         setup_cmd='python3 engine/build.py prebuild',
         hooks=dict(guard='ADAPTAGRAMS_VERIF', enable='checks compile /repo sources with -DADAPTAGRAMS_VERIF (no hook commits exist; the define is reserved)',
                    baseline_off_cmd='cd /repo/cola && make -k check', source_commits=[], add_only=True),
         engines=[dict(name='irsym', path='engine/irsym.py', serves_properties=[c['property_id'] for c in checks],
                       kind_free_text='own symbolic executor for LLVM IR (clang++-14 output of the real sources, regenerated per run) with z3; concrete heap, symbolic numeric inputs, exact-real + error-bound FP model; native replay of counterexamples')],
         checks=checks, not_applicable=na,
         notes='exit codes of ./check: 0 held within bounds, 1 confirmed violation (VIOLATION line), 2 engine inconclusive. See DESIGN.md.')
json.dump(M, open(os.path.join(os.path.dirname(os.path.abspath(__file__)), 'MANIFEST.json'), 'w'), indent=1)
print('claimed:', [c['property_id'] for c in checks]); print('not applicable:', [n['property_id'] for n in na])
